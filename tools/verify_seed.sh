#!/bin/bash
# verify_seed.sh <dir with patch.diff and demo.py> [--no-suite]
# Confirms, in a scratch git worktree of /repo (removed afterwards), that
#   1. patch.diff applies to /repo's HEAD,
#   2. demo.py exits 0 without the patch and non-zero with it,
#   3. the pinned suite (/root/.vp/BASELINE.json stable_pass) still passes with the patch.
# Prints DEMO-OK / DEMO-BAD and SUITE-OK / SUITE-BAD lines; exit 0 iff all hold.
set -u
D=$(readlink -f "$1"); shift
SUITE=1; [ "${1:-}" = "--no-suite" ] && SUITE=0
ID=$(basename "$D")
WT=/tmp/j2o-wt-$ID-$$
PY=/venv/bin/python
rc=0
git -C /repo worktree add --detach "$WT" HEAD >/dev/null 2>&1 || { echo "worktree failed"; exit 2; }
cleanup() { git -C /repo worktree remove --force "$WT" >/dev/null 2>&1; rm -rf "$WT" /tmp/j2o-junit-$ID-$$.xml; }
trap cleanup EXIT
cd "$WT"
export PYTHONDONTWRITEBYTECODE=1 JAX_PLATFORMS=cpu
PYTHONPATH="$WT" timeout 900 $PY "$D/demo.py" >/tmp/j2o-demo-$ID-clean.log 2>&1; a=$?
git apply "$D/patch.diff" || { echo "PATCH-BAD does not apply"; exit 2; }
PYTHONPATH="$WT" timeout 900 $PY "$D/demo.py" >/tmp/j2o-demo-$ID-patched.log 2>&1; b=$?
if [ $a -eq 0 ] && [ $b -ne 0 ]; then echo "DEMO-OK clean=$a patched=$b"; else echo "DEMO-BAD clean=$a patched=$b (logs /tmp/j2o-demo-$ID-*.log)"; rc=1; fi
if [ $SUITE -eq 1 ]; then
  PYTHONPATH="$WT" timeout 3000 $PY -m pytest -q -p no:cacheprovider --timeout=900 --continue-on-collection-errors --junitxml=/tmp/j2o-junit-$ID-$$.xml >/tmp/j2o-suite-$ID.log 2>&1
  $PY - "$ID" /tmp/j2o-junit-$ID-$$.xml <<'EOF' || rc=1
import json, sys, xml.etree.ElementTree as ET
base = set(json.load(open('/root/.vp/BASELINE.json'))['stable_pass'])
passed, failed = set(), set()
for tc in ET.parse(sys.argv[2]).getroot().iter('testcase'):
    tid = (tc.get('classname') or '') + '::' + (tc.get('name') or '')
    if tc.find('failure') is not None or tc.find('error') is not None: failed.add(tid)
    elif tc.find('skipped') is None: passed.add(tid)
passed -= failed
missing = sorted(base - passed)
if missing:
    print(f"SUITE-BAD {len(base)-len(missing)}/{len(base)} stable tests pass; first missing: {missing[:5]}")
    sys.exit(1)
print(f"SUITE-OK {len(base)}/{len(base)} stable tests pass")
EOF
fi
exit $rc

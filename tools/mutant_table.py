#!/usr/bin/env python3
"""Turn the output of `python -m sim.mutants [...]` (concatenated JSON objects plus a summary
line) into the markdown table of DESIGN.md section 12.

usage: tools/mutant_table.py <mutants log> [<more logs> ...]
"""
from __future__ import annotations

import json
import os
import re
import sys

V = os.path.dirname(os.path.dirname(os.path.abspath(__file__)))


def objects(text: str):
    dec = json.JSONDecoder()
    i = 0
    while True:
        j = text.find("{", i)
        if j < 0:
            return
        try:
            obj, end = dec.raw_decode(text, j)
        except json.JSONDecodeError:
            i = j + 1
            continue
        yield obj
        i = end


def main() -> None:
    res: dict[str, dict] = {}
    for path in sys.argv[1:]:
        for o in objects(open(path).read()):
            if isinstance(o, dict) and "id" in o and "results" in o:
                res[o["id"]] = o
    print("| seeded change | property | what it does (what it needs: `seeded/<id>/meta.json`) | quick check result | first signature |")
    print("|---|---|---|---|---|")
    for mid in sorted(res):
        o = res[mid]
        mp = os.path.join(V, "seeded", mid, "meta.json")
        if not os.path.exists(mp):
            continue  # retired
        meta = json.load(open(mp))
        verdicts = []
        sig = ""
        for prop, r in o["results"].items():
            verdicts.append(f"{prop}: {'caught' if r['exit'] == 1 else ('MISSED' if r['exit'] == 0 else 'harness error')} ({r['wall_s']:.0f} s)")
            for ln in r.get("lines", []):
                m = re.search(r"sig=(\S+)", ln)
                if m and not sig:
                    sig = m.group(1)[:110]
        what = (meta.get("what") or meta.get("origin", ""))[:230].replace("|", "\\|")
        print(f"| `{mid}` | {meta['property']} | {what} | {'; '.join(verdicts)} | `{sig}` |")


if __name__ == "__main__":
    main()

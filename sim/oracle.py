"""Oracles shared by the property workers: ORT execution, eager JAX execution,
numeric comparison, ONNX validity, structural function checks, digests.

Independent of jax2onnx.allclose (that helper is itself a property, C18).
"""
from __future__ import annotations

import hashlib
from typing import Any, Sequence

import numpy as np

_NHWC2NCHW = (0, 3, 1, 2)
_NCHW2NHWC = (0, 2, 3, 1)

_ORT_DT = {
    "float": np.float32,
    "double": np.float64,
    "float16": np.float16,
    "int64": np.int64,
    "int32": np.int32,
    "int16": np.int16,
    "int8": np.int8,
    "uint8": np.uint8,
    "uint16": np.uint16,
    "uint32": np.uint32,
    "uint64": np.uint64,
    "bool": np.bool_,
}


def proto_digest(model_proto: Any) -> str:
    return hashlib.sha256(model_proto.SerializeToString(deterministic=True)).hexdigest()[:16]


def _session(model: Any):
    import onnxruntime as ort

    so = ort.SessionOptions()
    so.graph_optimization_level = ort.GraphOptimizationLevel.ORT_DISABLE_ALL
    so.enable_mem_pattern = False
    so.intra_op_num_threads = 1
    so.inter_op_num_threads = 1
    so.log_severity_level = 4
    if isinstance(model, (str, bytes)):
        src = model
    else:
        src = model.SerializeToString()
    return ort.InferenceSession(src, sess_options=so, providers=["CPUExecutionProvider"])


def ort_run(
    model: Any,
    xs: Sequence[np.ndarray],
    params: dict | None = None,
    inputs_as_nchw: Sequence[int] | None = None,
) -> list[np.ndarray]:
    sess = _session(model)
    params = params or {}
    xs = list(xs)
    if inputs_as_nchw:
        for idx in inputs_as_nchw:
            if 0 <= idx < len(xs) and getattr(xs[idx], "ndim", 0) == 4:
                xs[idx] = np.transpose(xs[idx], _NHWC2NCHW)
    feed = {}
    it = iter(xs)
    for meta in sess.get_inputs():
        if meta.name in params:
            val = params[meta.name]
        else:
            val = next(it)
        arr = np.asarray(val)
        t = meta.type
        if isinstance(t, str) and t.startswith("tensor("):
            tgt = _ORT_DT.get(t[7:-1])
            if tgt is not None:
                if np.issubdtype(arr.dtype, np.complexfloating) and np.issubdtype(tgt, np.floating):
                    arr = np.stack([arr.real, arr.imag], axis=-1).astype(tgt)
                elif arr.dtype != tgt:
                    arr = arr.astype(tgt)
        feed[meta.name] = arr
    return [np.asarray(o) for o in sess.run(None, feed)]


def jax_run(fn: Any, xs: Sequence[np.ndarray], params: dict | None, x64: bool) -> list[np.ndarray]:
    import jax
    import jax.numpy as jnp

    with jax.enable_x64(bool(x64)):  # scoped: never touches the process-wide flag
        kw = {}
        for k, v in (params or {}).items():
            kw[k] = jnp.asarray(v) if isinstance(v, (np.ndarray, list, tuple)) else v
        res = fn(*[jnp.asarray(x) for x in xs], **kw)
        flat, _ = jax.tree_util.tree_flatten(jax.device_get(res))
        return [np.asarray(v) for v in flat]


def compare(
    expected: Sequence[np.ndarray],
    got: Sequence[np.ndarray],
    *,
    rtol: float,
    atol: float,
    outputs_as_nchw: Sequence[int] | None = None,
) -> tuple[bool, str]:
    if len(expected) != len(got):
        return False, f"count {len(expected)} vs {len(got)}"
    for i, (e, g) in enumerate(zip(expected, got)):
        e = np.asarray(e)
        g = np.asarray(g)
        if outputs_as_nchw and i in outputs_as_nchw and g.ndim == 4:
            g = np.transpose(g, _NCHW2NHWC)
        if np.issubdtype(e.dtype, np.complexfloating) and np.issubdtype(g.dtype, np.floating):
            if g.ndim == e.ndim + 1 and g.shape[-1] == 2:
                g = (g[..., 0] + 1j * g[..., 1]).astype(e.dtype)
        if e.dtype.kind == "V" or g.dtype.kind == "V":
            e = e.astype(np.float32)
            g = g.astype(np.float32)
        if e.shape != g.shape:
            return False, f"out{i} shape {e.shape} vs {g.shape}"
        if e.dtype.kind in "fc" or g.dtype.kind in "fc":
            try:
                ok = np.allclose(e.astype(np.result_type(e.dtype, np.float32)), g.astype(np.result_type(e.dtype, np.float32)), rtol=rtol, atol=atol, equal_nan=True)
            except Exception as exc:  # exotic dtypes
                return False, f"out{i} cmp error {type(exc).__name__}"
            if not ok:
                with np.errstate(all="ignore"):
                    d = np.abs(e.astype(np.complex128) - g.astype(np.complex128))
                md = float(np.nanmax(d)) if d.size else 0.0
                return False, f"out{i} maxdiff {md:.3g}"
        else:
            if not np.array_equal(e, g.astype(e.dtype)):
                return False, f"out{i} non-float differ"
    return True, "ok"


def outputs_digest(outs: Sequence[np.ndarray]) -> str:
    h = hashlib.sha256()
    for o in outs:
        o = np.ascontiguousarray(o)
        h.update(str(o.dtype).encode())
        h.update(str(o.shape).encode())
        h.update(o.tobytes())
    return h.hexdigest()[:16]


def check_model(model_proto: Any, full: bool = True) -> tuple[bool, str]:
    import onnx

    try:
        onnx.checker.check_model(model_proto, full_check=full)
        return True, "ok"
    except Exception as exc:
        msg = str(exc).strip().splitlines()
        return False, f"{type(exc).__name__}: {msg[0] if msg else ''}"[:300]


def ort_loadable(model_proto: Any) -> tuple[bool, str]:
    try:
        _session(model_proto)
        return True, "ok"
    except Exception as exc:
        msg = str(exc).strip().splitlines()
        return False, f"{type(exc).__name__}: {msg[0] if msg else ''}"[:300]


# ---------------------------------------------------------------------------
# structural checks for ONNX functions (C07 / C16)
# ---------------------------------------------------------------------------

_STD_DOMAINS = {"", "ai.onnx", "ai.onnx.ml", "com.microsoft", "ai.onnx.training", "ai.onnx.preview.training"}


def _iter_nodes(graph: Any):
    for n in graph.node:
        yield n
        for a in n.attribute:
            if a.type == 5:  # GRAPH
                yield from _iter_nodes(a.g)
            elif a.type == 10:
                for g in a.graphs:
                    yield from _iter_nodes(g)


class _FnGraph:
    def __init__(self, f: Any) -> None:
        self.node = f.node


def function_structure(model_proto: Any) -> tuple[bool, str, dict]:
    """Every non-standard-domain call node has exactly one FunctionProto with
    equal arity; domain imported; recursively in function bodies."""
    fns: dict[tuple[str, str], list] = {}
    for f in model_proto.functions:
        fns.setdefault((f.domain, f.name), []).append(f)
    imports = {o.domain for o in model_proto.opset_import}
    calls: dict[tuple[str, str], int] = {}
    problems: list[str] = []

    def scan(graph: Any, where: str, local_imports: set) -> None:
        for n in _iter_nodes(graph):
            key = (n.domain, n.op_type)
            if n.domain in _STD_DOMAINS and key not in fns:
                continue
            defs = fns.get(key)
            if not defs:
                problems.append(f"{where}: call {key} has no definition")
                continue
            if len(defs) != 1:
                problems.append(f"{where}: call {key} has {len(defs)} definitions")
            f = defs[0]
            if len(n.input) != len(f.input):
                problems.append(f"{where}: call {key} passes {len(n.input)} inputs, def takes {len(f.input)}")
            if len(n.output) != len(f.output):
                problems.append(f"{where}: call {key} has {len(n.output)} outputs, def has {len(f.output)}")
            if n.domain not in local_imports:
                problems.append(f"{where}: domain {n.domain!r} not imported")
            calls[key] = calls.get(key, 0) + 1

    scan(model_proto.graph, "graph", imports)
    for f in model_proto.functions:
        scan(_FnGraph(f), f"fn {f.domain}:{f.name}", {o.domain for o in f.opset_import} | imports)
    for key, defs in fns.items():
        if len(defs) > 1:
            problems.append(f"duplicate definition {key}")
    # function bodies must be closed: every consumed value is a function input or
    # produced inside the body (ONNX functions have no outer scope)
    for f in model_proto.functions:
        known = set(f.input) | {""}
        for n in f.node:
            for i in n.input:
                if i not in known:
                    problems.append(f"fn {f.domain}:{f.name}: node {n.op_type} consumes {i!r} which the body neither receives nor produces")
                    break
            known.update(n.output)
        for o in f.output:
            if o not in known:
                problems.append(f"fn {f.domain}:{f.name}: output {o!r} is not produced in the body")
    return (not problems), "; ".join(problems[:5]), {"calls": {f"{k[0]}:{k[1]}": v for k, v in calls.items()}, "n_functions": len(model_proto.functions)}

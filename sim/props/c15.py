"""C15 — all return and file modes deliver the same model.

Stateful export/reload machine over a private directory with a
fault-injecting file layer.  Reference model (ShardStore idiom): an
in-memory map  path -> expected ModelProto  (the return_mode="proto" result
of the same request in the same interpreter) and  handle -> digest  for
every ir.Model a previous call returned.
"""
from __future__ import annotations

import errno
import os
import shutil
import time
from collections import Counter
from typing import Any

import sim.common as cm
from sim.common import EventLog, digest, rng

PROP = "C15"

# ---------------------------------------------------------------------------
# fault-injecting file layer
# ---------------------------------------------------------------------------


class _FileProxy:
    def __init__(self, real: Any, layer: "FileLayer") -> None:
        self._r = real
        self._l = layer

    def write(self, data: Any) -> Any:
        f = self._l.fault
        if f and f["kind"] == "torn_write":
            idx = self._l.count("write")
            if idx == f["n"]:
                m = min(int(f.get("m", 0)), len(data))
                if m:
                    self._r.write(bytes(data[:m]))
                try:
                    self._r.flush()
                except Exception:
                    pass
                self._l.fired = {"kind": "torn_write", "n": idx, "m": m, "of": len(data)}
                raise self._l.make_exc(errno.ENOSPC, "No space left on device")
        else:
            self._l.count("write")
        return self._r.write(data)

    def __enter__(self) -> "_FileProxy":
        self._r.__enter__()
        return self

    def __exit__(self, *a: Any) -> Any:
        return self._r.__exit__(*a)

    def __getattr__(self, name: str) -> Any:
        return getattr(self._r, name)

    def __iter__(self) -> Any:
        return iter(self._r)


class FileLayer:
    """Owns every I/O call the export path makes (open, os.fdopen, os.remove,
    os.path.exists/getsize, os.makedirs) while an export is running."""

    def __init__(self) -> None:
        self.fault: dict | None = None
        self.fired: dict | None = None
        self.counts: Counter = Counter()
        self.calls: Counter = Counter()

    def count(self, kind: str) -> int:
        i = self.counts[kind]
        self.counts[kind] += 1
        self.calls[kind] += 1
        return i

    def make_exc(self, code: int, msg: str) -> BaseException:
        from sim.runtime import SimInterrupt

        if self.fault and self.fault.get("exc") == "SimInterrupt":
            return SimInterrupt(f"sim: crash during {self.fault['kind']}")
        return OSError(code, msg)

    def _maybe(self, kind: str, code: int, msg: str) -> None:
        idx = self.count(kind)
        f = self.fault
        if f and f["kind"] == kind + "_error" and idx == f["n"]:
            self.fired = {"kind": f["kind"], "n": idx}
            raise self.make_exc(code, msg)

    def run(self, fn: Any, fault: dict | None) -> Any:
        import builtins

        import onnx
        import onnx.external_data_helper as edh

        self.fault = fault
        self.fired = None
        self.counts = Counter()
        real_open = builtins.open
        real_fdopen = os.fdopen
        real_remove = os.remove
        real_exists = os.path.exists
        real_getsize = os.path.getsize
        real_makedirs = os.makedirs
        layer = self

        def s_open(file: Any, mode: str = "r", *a: Any, **k: Any) -> Any:
            if "w" in mode or "a" in mode or "+" in mode:
                layer._maybe("open", errno.EACCES, "Permission denied")
                return _FileProxy(real_open(file, mode, *a, **k), layer)
            return real_open(file, mode, *a, **k)

        def s_fdopen(fd: int, mode: str = "r", *a: Any, **k: Any) -> Any:
            if "w" in mode or "a" in mode or "+" in mode:
                try:
                    layer._maybe("open", errno.EIO, "Input/output error")
                except BaseException:
                    os.close(fd)
                    raise
                return _FileProxy(real_fdopen(fd, mode, *a, **k), layer)
            return real_fdopen(fd, mode, *a, **k)

        def s_remove(p: Any, *a: Any, **k: Any) -> Any:
            layer._maybe("remove", errno.EACCES, "Permission denied")
            return real_remove(p, *a, **k)

        def s_exists(p: Any) -> bool:
            layer.count("exists")
            return real_exists(p)

        def s_getsize(p: Any) -> int:
            layer._maybe("getsize", errno.EIO, "Input/output error")
            return real_getsize(p)

        def s_makedirs(p: Any, *a: Any, **k: Any) -> Any:
            layer._maybe("makedirs", errno.EACCES, "Permission denied")
            return real_makedirs(p, *a, **k)

        onnx.open = s_open  # type: ignore[attr-defined]  (module-global shadows the builtin)
        os.fdopen = s_fdopen
        os.remove = s_remove
        os.path.exists = s_exists
        os.path.getsize = s_getsize
        os.makedirs = s_makedirs
        try:
            return fn()
        finally:
            try:
                del onnx.open  # type: ignore[attr-defined]
            except AttributeError:
                pass
            os.fdopen = real_fdopen
            os.remove = real_remove
            os.path.exists = real_exists
            os.path.getsize = real_getsize
            os.makedirs = real_makedirs
            self.fault = None


# ---------------------------------------------------------------------------
# model comparison
# ---------------------------------------------------------------------------


def _all_tensors(model: Any):
    import onnx

    def from_graph(g: Any):
        for t in g.initializer:
            yield t
        for n in g.node:
            yield from from_attrs(n)

    def from_attrs(n: Any):
        for a in n.attribute:
            if a.type == onnx.AttributeProto.TENSOR:
                yield a.t
            elif a.type == onnx.AttributeProto.TENSORS:
                yield from a.tensors
            elif a.type == onnx.AttributeProto.GRAPH:
                yield from from_graph(a.g)
            elif a.type == onnx.AttributeProto.GRAPHS:
                for g in a.graphs:
                    yield from from_graph(g)

    yield from from_graph(model.graph)
    for f in model.functions:
        for n in f.node:
            yield from from_attrs(n)


def normalise(model: Any) -> bytes:
    """Storage-normalised deterministic bytes (raw vs external location is a
    storage detail, payload bits are not)."""
    import onnx

    m = onnx.ModelProto()
    m.CopyFrom(model)
    for t in _all_tensors(m):
        if t.data_location == onnx.TensorProto.DEFAULT:
            t.ClearField("data_location")
        del t.external_data[:]
    return m.SerializeToString(deterministic=True)


def first_diff(a: Any, b: Any) -> str:
    import numpy as np
    from onnx import numpy_helper

    if len(a.graph.node) != len(b.graph.node):
        return f"node count {len(a.graph.node)} vs {len(b.graph.node)}"
    ia = {t.name: t for t in a.graph.initializer}
    ib = {t.name: t for t in b.graph.initializer}
    if list(ia) != list(ib):
        return f"initializer names {list(ia)[:4]} vs {list(ib)[:4]}"
    for n, ta in ia.items():
        tb = ib[n]
        if ta.data_type != tb.data_type or list(ta.dims) != list(tb.dims):
            return f"initializer {n}: type/dims differ"
        try:
            xa, xb = numpy_helper.to_array(ta), numpy_helper.to_array(tb)
            if xa.tobytes() != xb.tobytes():
                bad = int(np.sum(xa.view(np.uint8).reshape(-1) != xb.view(np.uint8).reshape(-1))) if xa.nbytes == xb.nbytes else -1
                return f"initializer {n}: payload differs ({bad} bytes)"
        except Exception as exc:
            return f"initializer {n}: unreadable ({type(exc).__name__}: {str(exc)[:80]})"
    for i, (x, y) in enumerate(zip(a.graph.node, b.graph.node)):
        if x.SerializeToString(deterministic=True) != y.SerializeToString(deterministic=True):
            return f"node#{i} {x.op_type} differs"
    if len(a.functions) != len(b.functions):
        return "function count differs"
    if list(a.opset_import) != list(b.opset_import):
        return "opset imports differ"
    return "other (value_info / io / metadata / storage fields)"


# ---------------------------------------------------------------------------
# worker
# ---------------------------------------------------------------------------


class Machine:
    def __init__(self, plan: dict) -> None:
        self.root = os.path.join(os.getcwd(), f"c15-{os.getpid()}")
        shutil.rmtree(self.root, ignore_errors=True)
        os.makedirs(self.root)
        self.layer = FileLayer()
        self.expected: dict[str, Any] = {}  # path_id -> (req_key, proto, mode) | None (unknown after a raised export)
        self.protos: dict[str, Any] = {}
        self.handles: list[dict] = []
        self.progs: dict[str, Any] = {}
        self.cwd0 = os.getcwd()
        self.in_root = False

    def path(self, pid: str) -> str:
        if pid.startswith("rel:"):
            return pid[4:] if self.in_root else os.path.join(self.root, pid[4:])
        return os.path.join(self.root, pid)

    def abspath(self, pid: str) -> str:
        if pid.startswith("rel:"):
            return os.path.join(self.root, pid[4:])
        return os.path.join(self.root, pid)

    def prog(self, req: str) -> Any:
        from sim import programs

        if req not in self.progs:
            self.progs[req] = programs.materialize(req)
        return self.progs[req]


def _convert(m: Machine, req: str, **over: Any) -> Any:
    from jax2onnx import to_onnx

    prog = m.prog(req)
    kw = prog.to_onnx_kwargs()
    kw.update(over)
    return to_onnx(prog.fn, list(prog.inputs), **kw)


def _expected_proto(m: Machine, req: str) -> Any:
    if req not in m.protos:
        m.protos[req] = _convert(m, req, return_mode="proto")
    return m.protos[req]


def _check_refs(m: Machine, path_id: str) -> list[tuple[str, str]]:
    """Main file still there and every external reference still resolves in bounds."""
    import onnx

    ap = m.abspath(path_id)
    if not os.path.exists(ap):
        return [("missing_file", "main file vanished")]
    try:
        raw = onnx.load(ap, load_external_data=False)
    except Exception as exc:
        return [("unloadable", f"{type(exc).__name__}: {str(exc)[:100]}")]
    bad = []
    d = os.path.dirname(ap)
    for t in _all_tensors(raw):
        if t.data_location != onnx.TensorProto.EXTERNAL:
            continue
        info = {e.key: e.value for e in t.external_data}
        fp = os.path.join(d, info.get("location", ""))
        if not os.path.exists(fp):
            bad.append(("external_ref_missing", f"{t.name}: {info.get('location')!r} missing"))
            break
        size = os.path.getsize(fp)
        off, ln = int(info.get("offset", 0)), int(info.get("length", size))
        if off + ln > size:
            bad.append(("external_ref_out_of_bounds", f"{t.name}: {off}+{ln} > {size}"))
            break
    return bad


def _check_file(m: Machine, path_id: str, req: str, mode: str, stats: Counter) -> list[tuple[str, str]]:
    """All oracle clauses for an export_file that returned."""
    import onnx
    from sim import oracle

    bad: list[tuple[str, str]] = []
    ap = m.abspath(path_id)
    exp = _expected_proto(m, req)
    if not os.path.exists(ap):
        return [("missing_file", f"{path_id} does not exist after export returned")]
    try:
        raw = onnx.load(ap, load_external_data=False)
    except Exception as exc:
        return [("unloadable", f"main file unreadable: {type(exc).__name__}: {str(exc)[:120]}")]
    ext = [t for t in _all_tensors(raw) if t.data_location == onnx.TensorProto.EXTERNAL]
    d = os.path.dirname(ap)
    if mode == "web" and ext:
        bad.append(("web_not_self_contained", f"{len(ext)} external tensors in web export"))
    if ext:
        stats["probe_sidecar_spilled"] += 1
    for t in ext:
        info = {e.key: e.value for e in t.external_data}
        loc = info.get("location", "")
        if os.path.isabs(loc) or ".." in loc.split("/"):
            bad.append(("external_ref_escapes_dir", f"{t.name}: location {loc!r}"))
            continue
        fp = os.path.join(d, loc)
        if not os.path.exists(fp):
            bad.append(("external_ref_missing", f"{t.name}: {loc!r} missing"))
            continue
        size = os.path.getsize(fp)
        off, ln = int(info.get("offset", 0)), int(info.get("length", size))
        if off + ln > size:
            bad.append(("external_ref_out_of_bounds", f"{t.name}: {off}+{ln} > {size}"))
    if bad:
        return bad
    try:
        full = onnx.load(ap)
    except Exception as exc:
        return [("unloadable", f"reload with external data failed: {type(exc).__name__}: {str(exc)[:160]}")]
    if normalise(full) != normalise(exp):
        bad.append(("reload_differs", first_diff(exp, full)))
        return bad
    stats["reloads_equal"] += 1
    # isolated copy (only the main file)
    iso = os.path.join(m.root, "_iso")
    shutil.rmtree(iso, ignore_errors=True)
    os.makedirs(iso)
    shutil.copy(ap, os.path.join(iso, "m.onnx"))
    iso_ok = True
    try:
        onnx.load(os.path.join(iso, "m.onnx"))
    except Exception:
        iso_ok = False
    if mode == "web" and not iso_ok:
        bad.append(("web_not_self_contained", "main file alone does not load"))
    if mode == "standard" and not ext and not iso_ok:
        bad.append(("standard_small_needs_sidecar", "nothing spilled, yet the main file alone does not load"))
    # ORT on the path vs ORT on the proto, bit-identical
    prog = m.prog(req)
    a = None
    try:
        xs = prog.make_inputs(0)
        a = oracle.ort_run(exp, xs, prog.kwargs.get("input_params"), prog.kwargs.get("inputs_as_nchw"))
    except Exception:
        # the runtime cannot execute this request at all (e.g. an operator it has no kernel for, a random
        # op): nothing to compare; the byte-level comparisons above already ran (false alarm seen at seed 2
        # with a registry testcase using RandomUniform)
        stats["probe_runtime_cannot_execute_the_proto_either"] += 1
    if a is not None and req.startswith(("primitives.", "examples.")):
        # registry testcases may contain seedless random operators: the proto must reproduce itself first
        try:
            if oracle.outputs_digest(oracle.ort_run(exp, xs, prog.kwargs.get("input_params"), prog.kwargs.get("inputs_as_nchw"))) != oracle.outputs_digest(a):
                stats["probe_proto_outputs_not_reproducible_in_runtime"] += 1
                a = None
        except Exception:
            a = None
    if a is not None:
        try:
            b = oracle.ort_run(ap, xs, prog.kwargs.get("input_params"), prog.kwargs.get("inputs_as_nchw"))
            if oracle.outputs_digest(a) != oracle.outputs_digest(b):
                bad.append(("ort_outputs_differ", "ORT(file) != ORT(proto) bitwise"))
            else:
                stats["ort_equal"] += 1
        except Exception as exc:
            bad.append(("ort_failed_on_file", f"{type(exc).__name__}: {str(exc)[:160]}"))
    shutil.rmtree(iso, ignore_errors=True)
    return bad


def run(plan: dict) -> dict:
    from sim.runtime import boot

    boot(plan)
    import onnx
    import onnx_ir as ir
    from sim import oracle
    from sim.fixtures import lib  # noqa: F401

    m = Machine(plan)
    log = EventLog()
    viol: list[dict] = []
    stats: Counter = Counter()
    executed: list[dict] = []

    def V(kind: str, detail: str, op: dict) -> None:
        viol.append({"sig": f"C15|{kind}|op={op['op']}|req={op.get('req')}|mode={op.get('mode', '-')}|fault={(op.get('fault') or {}).get('kind', '-')}", "cls": kind, "detail": detail, "replay_ops": list(executed)})

    def check_handles(after: str) -> None:
        for h in m.handles:
            if h["mutated"]:
                continue
            try:
                dg = digest(ir.to_proto(h["model"]).SerializeToString(deterministic=True))
            except Exception as exc:
                dg = f"err:{type(exc).__name__}"
            if dg != h["digest"]:
                viol.append({"sig": f"C15|ir_handle_changed|req={h['req']}|after={after}", "cls": "ir_handle_changed", "detail": f"ir.Model returned earlier for {h['req']} changed after {after}", "replay_ops": list(executed)})
                h["digest"] = dg

    try:
        for idx, op in enumerate(plan["ops"]):
            executed.append(op)
            kind = op["op"]
            if kind == "chdir":
                os.chdir(m.root if op.get("to") == "root" else m.cwd0)
                m.in_root = op.get("to") == "root"
                log.add(i=idx, op="chdir", to=op.get("to"))
                continue
            if kind == "interfere":
                ap = m.abspath(op["path"]) + ".data"
                os.makedirs(os.path.dirname(ap), exist_ok=True)
                r = rng("c15-interfere", op.get("seed", 0))
                with open(ap, "wb") as f:
                    if op.get("what") == "garbage":
                        f.write(bytes(r.getrandbits(8) for _ in range(int(op.get("n", 4096)))))
                stats["interferences"] += 1
                # the planted file replaces whatever sidecar the last export to this path
                # wrote: the pair on disk is no longer what an export delivered, so nothing
                # is expected of it until the next export (which must not pick the plant up)
                m.expected[op["path"]] = None
                log.add(i=idx, op="interfere", path=op["path"], what=op.get("what"))
                continue
            if kind == "export_proto":
                try:
                    p = _convert(m, op["req"], return_mode="proto")
                    if normalise(p) != normalise(_expected_proto(m, op["req"])):
                        V("proto_not_repeatable", "second proto export of the same request differs", op)
                    stats["proto_exports"] += 1
                except Exception as exc:
                    log.add(i=idx, op=kind, req=op["req"], raised=type(exc).__name__)
                    continue
                log.add(i=idx, op=kind, req=op["req"])
                check_handles(kind)
                continue
            if kind == "export_ir":
                try:
                    irm = _convert(m, op["req"], return_mode="ir")
                    b = ir.to_proto(irm).SerializeToString(deterministic=True)
                    e = _expected_proto(m, op["req"]).SerializeToString(deterministic=True)
                    stats["ir_exports"] += 1
                    if b != e:
                        V("ir_differs_from_proto", first_diff(_expected_proto(m, op["req"]), ir.to_proto(irm)), op)
                    m.handles.append({"req": op["req"], "model": irm, "digest": digest(b), "mutated": False})
                except Exception as exc:
                    log.add(i=idx, op=kind, req=op["req"], raised=type(exc).__name__)
                    continue
                log.add(i=idx, op=kind, req=op["req"])
                check_handles(kind)
                continue
            if kind == "mutate_ir":
                live = [h for h in m.handles if not h["mutated"]]
                if live:
                    h = live[int(op.get("which", 0)) % len(live)]
                    g = h["model"].graph
                    try:
                        nodes = list(g)
                        if nodes:
                            nodes[-1].outputs[0].name = "sim_user_renamed"
                            if len(nodes) > 1:
                                nodes[0].op_type = "SimUserEdited"
                        for t in list(g.initializers.values())[:1]:
                            t.name = "sim_user_renamed_init"
                    except Exception:
                        pass
                    h["mutated"] = True
                    stats["ir_mutations"] += 1
                    # later exports of the same request must not see the edit
                    try:
                        p = _convert(m, h["req"], return_mode="proto")
                        if normalise(p) != normalise(_expected_proto(m, h["req"])):
                            V("mutated_ir_leaks_into_export", first_diff(_expected_proto(m, h["req"]), p), {**op, "req": h["req"]})
                    except Exception as exc:
                        V("mutated_ir_breaks_export", f"{type(exc).__name__}: {exc}", {**op, "req": h["req"]})
                log.add(i=idx, op=kind)
                continue
            if kind == "export_file":
                req, mode, path_id, fault = op["req"], op.get("mode", "standard"), op["path"], op.get("fault")
                try:
                    _expected_proto(m, req)
                except Exception as exc:
                    log.add(i=idx, op=kind, req=req, skipped=f"unconvertible:{type(exc).__name__}")
                    stats["skipped_unconvertible"] += 1
                    continue
                raised: BaseException | None = None
                ret = None
                try:
                    ret = m.layer.run(lambda: _convert(m, req, return_mode="file", output_path=m.path(path_id), export_mode=mode), fault)
                except BaseException as e:  # noqa: BLE001
                    raised = e
                fired = m.layer.fired
                stats["file_exports"] += 1
                stats[f"file_exports_{mode}"] += 1
                if fired:
                    stats["fault_" + fired["kind"] + ("_crash" if (fault or {}).get("exc") == "SimInterrupt" else "")] += 1
                elif fault:
                    stats["fault_not_reached"] += 1
                prev = m.expected.get(path_id)
                if prev is not None and raised is None:
                    stats["probe_overwrite_same_path"] += 1
                    if prev[2] != mode:
                        stats["probe_mode_switch_on_path"] += 1
                    if prev[0] != req:
                        stats["probe_request_switch_on_path"] += 1
                if raised is not None:
                    m.expected[path_id] = None
                    stats["file_exports_raised"] += 1
                    if not fired:
                        # a fault-free export that raises is loud; only note it
                        stats["file_exports_raised_without_fault"] += 1
                    log.add(i=idx, op=kind, req=req, mode=mode, path=path_id, fault=fired, raised=type(raised).__name__)
                    check_handles(kind)
                    continue
                if fired and fired["kind"] in ("remove_error",):
                    stats["probe_swallowed_remove_error"] += 1
                if m.expected.get(path_id, "x") is None:
                    stats["probe_export_after_failed_export_same_path"] += 1
                if ret != m.path(path_id):
                    V("wrong_return_path", f"returned {ret!r} for {m.path(path_id)!r}", op)
                bad = _check_file(m, path_id, req, mode, stats)
                for kind_, det in bad:
                    V(kind_, det, op)
                m.expected[path_id] = (req, None, mode)
                # an export to one path must not damage what was delivered to another (cheap reference check
                # after every export; the full reload of every path follows at the end of the history)
                for other, ent in sorted(m.expected.items()):
                    if other == path_id or not ent:
                        continue
                    for kind_, det in _check_refs(m, other):
                        V("other_path_damaged_" + kind_, f"after exporting to {path_id}: {other}: {det}", {**op, "req": ent[0], "mode": ent[2]})
                    stats["cross_path_reference_checks"] += 1
                log.add(i=idx, op=kind, req=req, mode=mode, path=path_id, fault=fired, bad=[b[0] for b in bad], io=dict(m.layer.counts))
                check_handles(kind)
                continue
            if kind == "reload":
                ent = m.expected.get(op["path"])
                if ent:
                    bad = _check_file(m, op["path"], ent[0], ent[2], stats)
                    for kind_, det in bad:
                        V("late_" + kind_, det, {**op, "req": ent[0], "mode": ent[2]})
                    stats["late_reloads"] += 1
                log.add(i=idx, op=kind, path=op["path"])
                continue
            raise ValueError(kind)
    finally:
        os.chdir(m.cwd0)
        shutil.rmtree(m.root, ignore_errors=True)
    stats["ops"] = len(executed)
    return {
        "violations": viol,
        "stats": dict(stats),
        "log_digest": log.digest(),
        "history_sig": digest([(o.get("op"), o.get("req"), o.get("mode"), o.get("path"), (o.get("fault") or {}).get("kind")) for o in plan["ops"]]),
        "samples": [plan["ops"][:8]],
    }


# ---------------------------------------------------------------------------
# coordinator
# ---------------------------------------------------------------------------

MIB = 1 << 20


def size_ladder(tier: str) -> list[int]:
    # float32 element counts; payload bytes = 4 * n; onnx spills when len(raw)+33 >= 1 MiB
    around = [(MIB - 64 + 4 * i) // 4 for i in range(0, 18)]  # 1 MiB-64 B ... 1 MiB+4 B in 4-byte steps
    base = [16, 131072] + around + [MIB]  # tiny, 512 KiB, ladder, 4 MiB
    return base


def gen_ops(seed: int, run: int, tier: str, with_faults: bool, registry: list[str] | None = None) -> list[dict]:
    r = rng("c15-ops", seed, run)
    sizes = size_ladder(tier)
    n_ops = 40 if tier == "thorough" else 22
    reqs: list[str] = []
    for _ in range(4):
        n = r.choice(sizes) if r.random() < 0.8 else r.choice([16, 131072, MIB])
        k = r.choice([1, 1, 2])
        variant = r.choice(["plain", "plain", "fn", "loop", "tied"])
        reqs.append(f"fx::c15::big-{n}-{k}-{variant}-{r.randrange(1, 9)}")
    reqs += [r.choice(["fx::c15::net", "fx::c15::outer", "fx::c15::resconv_nchw", "fx::c15::cf_scan"])]
    # runtime parameters materialised as inputs, custom input/output names, double precision post-processing
    reqs += r.sample(["fx::c15::autoflags", "fx::c15::named_io", "fx::c15::flat_f64", "fx::c15::fn_boundary_f64", "fx::c15::kwblock", "fx::c15::f16_cast_chain", "fx::c15::cond_dead_capture", "fx::c15::cond_unused_operand", "fx::c15::cf_cond", "fx::c15::cf_nested", "fx::c15::dead_chain", "fx::c15::dead_fn_call", "fx::c15::nchw_named", "fx::c15::params_named", "fx::c15::f64_named"], 5)
    if registry:
        reqs += r.sample(registry, min(2, len(registry)))
    # three ordinary targets plus two whose names differ from "a.onnx" only by the suffix (no suffix, another
    # suffix): their sidecars must not collide with a.onnx's
    paths = ["a.onnx", "sub/dir/b.onnx", "rel:c.onnx", "a", "a.web"]
    ops: list[dict] = [{"op": "chdir", "to": "root"}] if r.random() < 0.4 else []
    sidecar_paths: set[str] = set()
    # every request of the run goes through the ir-vs-proto comparison at least once
    for q_ in reqs:
        ops.append({"op": "export_ir", "req": q_})
    for _ in range(n_ops):
        u = r.random()
        if u < 0.62:
            op: dict = {"op": "export_file", "req": r.choice(reqs), "mode": r.choice(["standard", "standard", "web"]), "path": r.choice(paths)}
            if with_faults and r.random() < 0.4:
                # place the fault where this export will actually do I/O: a sidecar can only be removed /
                # measured if an earlier operation of this history left one next to the path
                has_sidecar = op["path"] in sidecar_paths
                kinds = ["open_error", "torn_write", "torn_write"] + (["makedirs_error"] if not op["path"].startswith("rel:") else [])
                if has_sidecar:
                    # web mode removes a leftover sidecar; standard mode measures it when nothing spilled
                    kinds += ["remove_error", "remove_error"] if op["mode"] == "web" else ["getsize_error", "remove_error"]
                kind = r.choice(kinds)
                n = r.choice([0, 0, 0, 1, 2]) if kind in ("open_error", "torn_write") else 0
                f: dict = {"kind": kind, "n": n, "exc": r.choice(["OSError", "OSError", "SimInterrupt"])}
                if kind == "torn_write":
                    f["m"] = r.choice([0, 1, 100, 4096, 524288, MIB - 1])
                op["fault"] = f
            if op["mode"] == "standard":
                sidecar_paths.add(op["path"])
            ops.append(op)
        elif u < 0.70:
            ops.append({"op": "export_ir", "req": r.choice(reqs)})
        elif u < 0.76:
            ops.append({"op": "export_proto", "req": r.choice(reqs)})
        elif u < 0.82:
            ops.append({"op": "mutate_ir", "which": r.randrange(4)})
        elif u < 0.92:
            ops.append({"op": "interfere", "path": r.choice(paths), "what": r.choice(["garbage", "empty"]), "n": r.choice([1, 4096, 2 * MIB]), "seed": r.getrandbits(16)})
            sidecar_paths.add(ops[-1]["path"])
        else:
            ops.append({"op": "reload", "path": r.choice(paths)})
    for p in paths:
        ops.append({"op": "reload", "path": p})
    return ops


def main(tier: str) -> int:
    from sim import coordinator as co

    t0 = time.time()
    seed = cm.verif_seed()
    budget = float(os.environ.get("VERIF_BUDGET_S", "1500" if tier == "thorough" else "420"))
    print(f"[C15] VERIF_SEED={seed} tier={tier} budget={budget}s repo={co.repo_dir()}")
    n_runs = int(os.environ.get("VERIF_C15_RUNS", "192" if tier == "thorough" else "32"))
    inv = co.run_plans([{"property": "C16", "ops": [{"op": "list_registry"}]}], timeout=300)[0]
    if not inv or inv.get("status") != "ok":
        print(f"HARNESS-ERROR property=C15 inventory failed: {inv}")
        return 2
    # the repo's own registered testcases as additional requests (functions, loops, symbolic dims, metadata);
    # very large examples are left to the thorough tier
    heavy = ("gpt", "vit", "dino", "maxdiffusion", "flux", "resnet", "transformer_stack", "cnn2", "llama", "gemma", "qwen")
    registry = [p for p in inv["registry"] if tier == "thorough" or not any(h in p.lower() for h in heavy)]
    plans = []
    for i in range(n_runs):
        wf = i % 2 == 1
        plans.append({"property": PROP, "hashseed": 0, "ops": gen_ops(seed, i, tier, wf, registry), "with_faults": wf, "run": i})
    results = co.run_plans(plans, timeout=max(900.0, budget), deadline=t0 + budget)
    stats: Counter = Counter()
    sigs = set()
    samples = []
    for r in results:
        if not r:
            continue
        stats.update(r.get("stats", {}))
        if r.get("history_sig"):
            sigs.add(r["history_sig"])
        if len(samples) < 3:
            samples.extend(r.get("samples", []))
    wall = max(time.time() - t0, 1e-6)
    warnings = [f"probe {p} stayed at zero" for p in ("probe_sidecar_spilled", "probe_overwrite_same_path", "probe_mode_switch_on_path", "probe_export_after_failed_export_same_path", "ir_mutations", "interferences") if not stats.get(p)]
    evidence = {
        "property_id": PROP,
        "level": "exploration",
        "coverage": {
            "evaluations": stats.get("file_exports", 0) + stats.get("ir_exports", 0) + stats.get("proto_exports", 0),
            "distinct_nontrivial": len(sigs),
            "rule": "evaluation = one export operation (file/ir/proto) followed by the full oracle (reload + storage-normalised byte equality with the proto of the same request, external-reference resolution, isolated main-file copy, ORT(file) == ORT(proto) bitwise, ir handle digests); distinct non-trivial = distinct simulated histories (sha256 of the op/request/mode/path/fault sequence), each with >= 20 operations over 3 paths",
            "samples": samples[:3] or [{"note": "none"}],
            "exhaustive": False,
            "histories": {"runs": len([r for r in results if r]), "distinct": len(sigs), "fault_free_runs": len([p for p, r in zip(plans, results) if r and not p["with_faults"]]), "fault_injecting_runs": len([p for p, r in zip(plans, results) if r and p["with_faults"]])},
            "faults_fired_by_kind": {k: v for k, v in stats.items() if k.startswith("fault_")},
            "probes": {k: v for k, v in stats.items() if k.startswith("probe_") or k in ("reloads_equal", "ort_equal", "file_exports_standard", "file_exports_web", "file_exports_raised", "file_exports_raised_without_fault", "ir_exports", "proto_exports", "ir_mutations", "interferences", "late_reloads", "skipped_unconvertible")},
            "probe_warnings": warnings,
            "size_ladder_elements": size_ladder(tier),
            "simulated_time": "n/a (no timers); logical steps = operations",
            "runs_per_hour": round(len([r for r in results if r]) / wall * 3600, 1),
            "operations_per_hour": round(stats.get("ops", 0) / wall * 3600, 1),
            "real_vs_stub": {"real": "jax2onnx, onnx.save_model / external data helpers, onnx.load, onnxruntime, a tmpfs directory", "stub": "the injected I/O errors / torn writes / crashes of the file layer (open, os.fdopen, write, os.remove, os.path.getsize, os.makedirs)"},
        },
        "assumptions": [
            "after an export_file that raises (injected fault) nothing is required of the files; the next successful export to that path must satisfy everything",
            "fault-free and fault-injecting histories are separate runs (odd run numbers inject), so the relaxation cannot hide an ordinary bug",
            "not demanded: atomic replacement, that a failed export leaves the old model intact, that stale sidecars are deleted or do not grow",
        ],
    }
    return co.report(PROP, tier, seed, plans=plans, results=results, evidence=evidence, t0=t0)

"""C13 — conversion leaves the host process as it found it.

Simulated run = one fresh interpreter executing an explicit history of
operations (conversions, faulted conversions, flag toggles, eager probes,
GC, late decorations).  Faults are synchronous exceptions injected at the
k-th eligible CALL event of the patch stack (sim.faults) or named faults in
user code.  After every operation the oracle compares the host process with
the baseline taken right after import and before any conversion.
"""
from __future__ import annotations

import gc
import os
import time
from collections import Counter
from typing import Any

import sim.common as cm
from sim.common import EventLog, digest, rng

PROP = "C13"

# ---------------------------------------------------------------------------
# worker side
# ---------------------------------------------------------------------------


class World:
    def __init__(self, plan: dict) -> None:
        from sim import faults, snapshot
        from sim.fixtures import lib  # noqa: F401  (decorates fixture targets before the baseline)

        self.plan = plan
        self.control = bool(plan.get("control", False))
        # the user has already used the Equinox RoPE layer eagerly (single precision) before the first
        # conversion: Equinox keeps a process-wide table cache whose content depends on the precision of
        # the FIRST eager use (measured: order of the user's own probes changes the bits), so without this
        # the expectation would depend on the history's own probe order rather than on the converter
        try:
            import jax.numpy as _jnp

            lib._rope()(_jnp.ones((6, 8), _jnp.float32))
        except Exception:
            pass
        self.ws = snapshot.WriteSet.take()
        self.base = snapshot.Snapshot.take()
        self.tables = snapshot.Tables.take()
        self.inj = faults.Injector()
        self.user_x64 = False
        self.progs: dict[str, Any] = {}
        self.nsites: dict[str, int] = {}
        self.ignore: set[str] = set(plan.get("ignore", []))
        self.expect = plan.get("expect_eager", {})
        self.eager_out: dict[str, Any] = {}
        self.converted: set[str] = set()
        self.late_done = False
        self.x64_ctx: list = []  # stack of (context manager, effective flag before entering)

    def expected_flag(self) -> bool:
        """What the user set: the innermost open jax.enable_x64(v) scope, else the global value."""
        if self.x64_ctx:
            return bool(self.x64_ctx[-1][2])
        return bool(self.user_x64)

    def prog(self, pid: str) -> Any:
        from sim import programs

        if pid not in self.progs:
            self.progs[pid] = programs.materialize(pid)
        return self.progs[pid]


def _leaf_fp(v: Any) -> str:
    import numpy as np

    try:
        if hasattr(v, "shape") and hasattr(v, "dtype"):
            a = np.asarray(v)
            return f"arr:{a.dtype}:{a.shape}:{digest(a.tobytes())}"
    except Exception:
        return f"arr?:{type(v).__name__}"
    if isinstance(v, (int, float, bool, str, bytes, complex, type(None))):
        return f"lit:{v!r}"
    return f"obj:{type(v).__name__}"


def fingerprint(obj: Any, depth: int = 4) -> list[str]:
    import jax

    parts: list[str] = []
    try:
        leaves, treedef = jax.tree_util.tree_flatten(obj)
        parts.append("treedef:" + digest(str(treedef)))
        for lf in leaves:
            parts.append(_leaf_fp(lf))
    except Exception as exc:
        parts.append(f"noflat:{type(exc).__name__}")
    seen: set[int] = set()

    def walk(o: Any, d: int, path: str) -> None:
        if d <= 0 or id(o) in seen:
            return
        seen.add(id(o))
        cl = getattr(o, "__closure__", None)
        if cl:
            for i, cell in enumerate(cl):
                try:
                    walk(cell.cell_contents, d - 1, f"{path}.<cell{i}>")
                except ValueError:
                    pass
        dct = getattr(o, "__dict__", None)
        if isinstance(dct, dict) and not isinstance(o, type) and type(o).__module__ not in ("builtins",):
            import types as _t

            if isinstance(o, _t.ModuleType):
                return
            for k in sorted(dct, key=str):
                v = dct[k]
                if hasattr(v, "shape") and hasattr(v, "dtype") or isinstance(v, (int, float, bool, str, bytes, type(None))):
                    parts.append(f"{path}.{k}={_leaf_fp(v)}")
                elif isinstance(v, (list, tuple)):
                    parts.append(f"{path}.{k}=seq{len(v)}")
                    for i, it in enumerate(v[:8]):
                        walk(it, d - 1, f"{path}.{k}[{i}]")
                elif isinstance(v, dict):
                    parts.append(f"{path}.{k}=dict{len(v)}:{digest(sorted(map(str, v)))}")
                else:
                    parts.append(f"{path}.{k}=<{type(v).__name__}>")
                    walk(v, d - 1, f"{path}.{k}")

    walk(obj, depth, "")
    return parts


def _eager_summary(fn: Any, xs: list, params: dict | None) -> dict:
    import jax
    import jax.numpy as jnp
    import numpy as np

    try:
        kw = {}
        for k, v in (params or {}).items():
            kw[k] = jnp.asarray(v) if isinstance(v, (np.ndarray, list, tuple)) else v
        res = fn(*[jnp.asarray(x) for x in xs], **kw)
        flat, _ = jax.tree_util.tree_flatten(jax.device_get(res))
        outs = []
        for v in flat:
            a = np.asarray(v)
            if a.dtype.kind == "V":
                a = a.astype(np.float32)
            with np.errstate(all="ignore"):
                if a.dtype.kind in "fc":
                    s, m = float(np.nansum(np.abs(a.astype(np.complex128)))), float(np.nanmax(np.abs(a))) if a.size else 0.0
                elif a.dtype.kind in "iub":
                    s, m = float(np.sum(a.astype(np.int64))), float(np.max(np.abs(a.astype(np.int64)))) if a.size else 0.0
                else:
                    s, m = 0.0, 0.0
            outs.append({"shape": list(a.shape), "dtype": str(a.dtype), "sum": s, "absmax": m, "digest": digest(np.ascontiguousarray(a).tobytes())})
        return {"outs": outs}
    except BaseException as exc:  # noqa: BLE001
        return {"exc": type(exc).__name__, "msg": str(exc)[:120]}


_DIGEST_MISMATCH = [0]  # outputs whose bits differ from the control interpreter's (whatever the verdict)


def _eager_equal(a: dict, b: dict, strict: bool = False) -> tuple[bool, str]:
    if ("exc" in a) != ("exc" in b):
        return False, f"expected {a.get('exc') or 'values'}, got {b.get('exc') + ':' + b.get('msg', '') if 'exc' in b else 'values'}"
    if "exc" in a:
        return (a["exc"] == b["exc"]), f"exception class {a['exc']} vs {b['exc']}"
    if len(a["outs"]) != len(b["outs"]):
        return False, "output count"
    for i, (x, y) in enumerate(zip(a["outs"], b["outs"])):
        if x["shape"] != y["shape"] or x["dtype"] != y["dtype"]:
            return False, f"out{i} {x['dtype']}{x['shape']} vs {y['dtype']}{y['shape']}"
        if x["digest"] == y["digest"]:
            continue
        _DIGEST_MISMATCH[0] += 1
        if strict:
            return False, f"out{i} bits differ ({x['digest']} vs {y['digest']}; sum {x['sum']} vs {y['sum']})"
        for key in ("sum", "absmax"):
            u, v = x[key], y[key]
            if u != u and v != v:
                continue
            if abs(u - v) > 1e-5 * max(1.0, abs(u), abs(v)):
                return False, f"out{i} {key} {u} vs {v}"
    return True, "ok"


def _named_wrap(fn: Any, named: str) -> Any:
    from sim.runtime import SimFault

    if named == "user_raises_before":

        def w(*a: Any, **k: Any) -> Any:
            raise SimFault("sim: user callable raised before its body")

        return w
    if named == "user_raises_after":

        def w2(*a: Any, **k: Any) -> Any:
            fn(*a, **k)
            raise SimFault("sim: user callable raised after its body")

        return w2
    if named in ("nested_convert", "nested_convert_raises"):
        # a conversion started while another one is in flight (the user's callable, or a library it
        # calls, exports a helper while being traced): the inner activation/unwind of the patch stack
        # is interleaved with the outer one
        from jax2onnx import to_onnx as _to_onnx

        def w3(*a: Any, **k: Any) -> Any:
            import jax.numpy as jnp

            def inner(x):
                if named == "nested_convert_raises":
                    raise SimFault("sim: inner user callable raised")
                return jnp.tanh(x) * 2.0

            try:
                _to_onnx(inner, [(2, 3)])
            except SimFault:
                pass
            return fn(*a, **k)

        return w3
    raise ValueError(named)


def _do_convert(w: World, op: dict, idx: int, log: EventLog, viol: list, stats: Counter, executed: list) -> None:
    import jax
    from jax2onnx import to_onnx
    from jax2onnx.plugins import plugin_system as ps
    from sim.runtime import exc_class

    pid = op["pid"]
    try:
        prog = w.prog(pid)
    except Exception as exc:
        log.add(i=idx, op="convert", pid=pid, skipped=f"materialize:{type(exc).__name__}")
        stats["skipped_unmaterializable"] += 1
        executed.append(op)
        return
    fault = op.get("fault")
    over = dict(op.get("over", {}))
    kw = prog.to_onnx_kwargs()
    kw.update(over)
    if kw.get("return_mode") == "file":
        kw["output_path"] = os.path.join(os.getcwd(), f"c13-{os.getpid()}.onnx")
    fn = prog.fn
    k: int | None = None
    exc_name = None
    if fault:
        if "named" in fault:
            fn = _named_wrap(fn, fault["named"])
        else:
            exc_name = fault.get("exc", "SimFault")
            if "region" in fault:
                k = None
            elif "k" in fault:
                k = int(fault["k"])
            else:
                n = w.nsites.get(pid)
                if n is None:
                    n = int(op.get("n_hint", 9000))
                k = int(float(fault["k_frac"]) * n)
    op_exec = dict(op)
    if fault and "named" not in fault and "region" not in fault:
        op_exec["fault"] = {"k": k, "exc": exc_name}
    executed.append(op_exec)
    if w.control:
        try:
            import jax as _jax

            sds = [_jax.ShapeDtypeStruct(a.shape, a.dtype) for a in prog.make_inputs(0)]
            _jax.eval_shape(lambda *a: prog.fn(*a, **(prog.kwargs.get("input_params") or {})), *sds)
        except BaseException:  # noqa: BLE001
            pass
        log.add(i=idx, op="convert", pid=pid, control=True)
        return

    fp_before = fingerprint(prog.fn)
    flag_before = bool(jax.config.jax_enable_x64)
    # the exception object is NOT kept: whatever is only reachable from its traceback (suspended
    # generators of context managers, half-open scopes) must be finalised before the oracle looks
    raised: str | None = None
    raised_is_injected = False
    E = exc_class(exc_name) if exc_name else None
    w.inj.start(k, (lambda: E(f"sim: injected fault at site {k}")) if E else None, region=tuple(fault["region"]) if (fault and "region" in fault) else None)
    try:
        to_onnx(fn, list(prog.inputs), **kw)
    except BaseException as e:  # noqa: BLE001
        raised = type(e).__name__
        raised_is_injected = bool(E is not None and isinstance(e, E))
        e = None  # noqa: F841
    finally:
        w.inj.stop()
    if raised is not None and op.get("collect_after_raise", True):
        # the caller handled the exception and let it go: reference cycles through traceback frames
        # are what a real process frees at its next collection (the worker runs with gc disabled)
        gc.collect()
    fired = w.inj.fired
    if k is None and raised is None and not fault:
        w.nsites[pid] = w.inj.count
    w.converted.add(pid)
    stats["conversions"] += 1
    if fired:
        stats[f"fault_fired_{exc_name}"] += 1
        stats["fault_in:" + fired["in"]] += 1
        if "_lower_and_call" in fired["in"] or "wrapped" in fired["in"] or "_activate_full_plugin_worlds_for_body" in fired["in"]:
            stats["probe_fault_in_function_body_path"] += 1
    elif fault and "named" in fault:
        stats[f"fault_named_{fault['named']}"] += 1
    elif fault:
        stats["fault_not_reached"] += 1
    if raised is None:
        stats["conversions_returned"] += 1
    else:
        stats["conversions_raised"] += 1
        if fired and not raised_is_injected:
            stats["fault_surfaced_as_other_exception"] += 1

    where = f"{fired['in']}:{fired['callee']}" if fired else (fault.get("named") if fault and "named" in fault else "nofault")
    tag = f"pid={pid}|fault={where}:{exc_name or '-'}"
    ctx_cls = f"{fired['in']}:{fired['callee']}" if fired else where
    rops = list(executed)
    # --- oracle -----------------------------------------------------------
    d = w.ws.check()
    d = [x for x in d if x["where"] not in w.ignore]
    if d:
        viol.append({"sig": f"C13|namespace|{tag}|where={d[0]['where']}|n={len(d)}", "cls": f"namespace|{ctx_cls}|{d[0]['where'] if len(d) < 4 else 'many'}", "detail": {"changed": d[:6], "n": len(d), "raised": raised, "site": fired}, "replay_ops": rops})
    flag_after = bool(jax.config.jax_enable_x64)
    if flag_after != flag_before:
        viol.append({"sig": f"C13|x64_flag|{tag}|{flag_before}->{flag_after}", "cls": f"x64_flag|{ctx_cls}", "detail": {"before": flag_before, "after": flag_after, "site": fired}, "replay_ops": rops})
    fp_after = fingerprint(prog.fn)
    if fp_after != fp_before:
        diffs = [(a, b) for a, b in zip(fp_before, fp_after) if a != b][:4]
        viol.append({"sig": f"C13|user_mutated|{tag}", "cls": f"user_mutated|{pid}", "detail": {"diff": diffs, "len": [len(fp_before), len(fp_after)]}, "replay_ops": rops})
    diag = {"patch_state": len(ps._PATCH_STATE), "in_fn_build": len(ps._IN_FUNCTION_BUILD.get())}
    log.add(i=idx, op="convert", pid=pid, fault=where, exc=exc_name, k=k, fired=bool(fired), raised=raised, ns=len(d), flag=flag_after, diag=diag)


def _do_eager(w: World, op: dict, idx: int, log: EventLog, viol: list, stats: Counter, executed: list) -> None:
    import jax

    executed.append(op)
    pid = op["pid"]
    try:
        prog = w.prog(pid)
    except Exception as exc:
        log.add(i=idx, op="eager", pid=pid, skipped=f"materialize:{type(exc).__name__}")
        return
    ambient = bool(jax.config.jax_enable_x64)
    key = f"{pid}|{int(ambient)}"
    xs = prog.make_inputs(0)
    got = _eager_summary(prog.fn, xs, prog.kwargs.get("input_params"))
    stats["eager_probes"] += 1
    exp = None if w.control else w.expect.get(key)
    verdict = None
    if w.control:
        w.eager_out.setdefault(key, got)
    elif exp is not None:
        n0 = _DIGEST_MISMATCH[0]
        # fixture programs have fixed weights and inputs: eager XLA-CPU results are bit-stable across
        # interpreters (measured), so any bit counts; registry programs keep the 1e-5 summary fallback
        ok, msg = _eager_equal(exp, got, strict=pid.startswith("fx::c13::"))
        if _DIGEST_MISMATCH[0] != n0:
            stats[f"bitdiff:{pid}|{int(ambient)}"] += 1
        verdict = ok
        if pid in w.converted:
            stats["eager_probes_after_conversion_of_same_program"] += 1
        if not ok:
            mode = f"{got.get('exc')}:{got.get('msg', '')[:48]}" if "exc" in got else "values"
            viol.append({"sig": f"C13|eager_changed|pid={pid}|x64={int(ambient)}|after={mode}", "cls": f"eager_changed|{mode}", "detail": {"expected": exp, "got": got, "msg": msg}, "replay_ops": list(executed)})
    elif not w.control:
        stats["eager_probes_without_expectation"] += 1
    log.add(i=idx, op="eager", pid=pid, ok=verdict, got=got.get("exc") or [o["digest"] for o in got["outs"]])
    # The user jit-compiles / abstractly evaluates the converted callable ITSELF after exporting it
    # (jax.jit(model)(x), jax.eval_shape(model, x)): both share JAX's trace cache keyed on the callable
    # object, so a conversion that traced that very object leaves its jaxpr there.  Fixture programs only
    # (registry callables that use inner jax.jit are the listed known finding).
    if pid.startswith("fx::c13::") and not (prog.kwargs.get("input_params") or {}) and not pid.endswith(("jit_cold", "jit_cold2")):
        jkey = key + "|jit"
        try:
            jfn = jax.jit(prog.fn)
        except BaseException as exc:  # noqa: BLE001
            jfn = None
        if jfn is not None:
            gotj = _eager_summary(jfn, xs, None)
            try:
                sds = [jax.ShapeDtypeStruct(x.shape, x.dtype) for x in xs]
                es = jax.eval_shape(prog.fn, *sds)
                gotj["eval_shape"] = [[list(l.shape), str(l.dtype)] for l in jax.tree_util.tree_leaves(es)]
            except BaseException as exc:  # noqa: BLE001
                gotj["eval_shape"] = f"{type(exc).__name__}"
            stats["eager_jit_probes"] += 1
            if w.control:
                w.eager_out.setdefault(jkey, gotj)
            else:
                expj = w.expect.get(jkey)
                if expj is not None:
                    n0 = _DIGEST_MISMATCH[0]
                    okj, msgj = _eager_equal(expj, gotj, strict=True)
                    if _DIGEST_MISMATCH[0] != n0:
                        stats[f"bitdiff:{pid}|{int(ambient)}|jit"] += 1
                    if okj and expj.get("eval_shape") != gotj.get("eval_shape"):
                        okj, msgj = False, f"eval_shape {expj.get('eval_shape')} vs {gotj.get('eval_shape')}"
                    if not okj:
                        mode = f"{gotj.get('exc')}:{gotj.get('msg', '')[:48]}" if "exc" in gotj else "values"
                        viol.append({"sig": f"C13|jit_of_converted_callable_changed|pid={pid}|x64={int(ambient)}|after={mode}", "cls": f"jit_of_converted_callable_changed|{mode}", "detail": {"expected": expj, "got": gotj, "msg": msgj}, "replay_ops": list(executed)})
                    log.add(i=idx, op="eager_jit", pid=pid, ok=okj)


def _do_sweep(w: World, op: dict, idx: int, log: EventLog, viol: list, stats: Counter, executed: list) -> None:
    from sim import snapshot

    executed.append(op)
    if w.control:
        now = snapshot.Snapshot.take()
        d = snapshot.diff(w.base, now, w.ws.tags) + w.tables.check()
        w.eager_out.setdefault("__noise__", [])
        w.eager_out["__noise__"] = sorted(set(w.eager_out["__noise__"]) | {x["where"] for x in d})
        log.add(i=idx, op="sweep", control=True, n=len(d))
        return
    now = snapshot.Snapshot.take()
    d = [x for x in snapshot.diff(w.base, now, w.ws.tags) if x["where"] not in w.ignore]
    d += w.tables.check(w.ignore)
    stats["full_sweeps"] += 1
    stats["full_sweep_entries"] = max(stats["full_sweep_entries"], now.n + w.tables.n)
    stats["dispatch_table_entries"] = max(stats["dispatch_table_entries"], w.tables.n)
    if d:
        viol.append({"sig": f"C13|sweep|where={d[0]['where']}|kind={d[0]['kind']}|n={len(d)}", "cls": f"sweep|{d[0]['where']}", "detail": {"changed": d[:8], "n": len(d)}, "replay_ops": list(executed)})
    log.add(i=idx, op="sweep", n=len(d), first=d[0]["where"] if d else None)


def _do_misc(w: World, op: dict, idx: int, log: EventLog, viol: list, stats: Counter, executed: list) -> None:
    import jax

    executed.append(op)
    kind = op["op"]
    if kind == "set_x64":
        jax.config.update("jax_enable_x64", bool(op["value"]))
        w.user_x64 = bool(op["value"])
        if w.x64_ctx:
            # the user changed the GLOBAL flag inside a scoped override: that is what must be
            # in effect once the outermost scope is left
            w.x64_ctx[0] = (w.x64_ctx[0][0], bool(op["value"]), w.x64_ctx[0][2])
        stats["set_x64"] += 1
    elif kind == "enter_x64_ctx":
        enable = getattr(jax, "enable_x64", None)
        if callable(enable) and len(w.x64_ctx) < 2:
            before = bool(jax.config.jax_enable_x64)
            cmgr = enable(bool(op["value"]))
            cmgr.__enter__()
            w.x64_ctx.append((cmgr, before, bool(op["value"])))
            stats["x64_ctx_entered"] += 1
    elif kind == "exit_x64_ctx":
        if w.x64_ctx:
            cmgr, before, _val = w.x64_ctx.pop()
            cmgr.__exit__(None, None, None)
            after = bool(jax.config.jax_enable_x64)
            stats["x64_ctx_exited"] += 1
            if after != before and not w.control:
                viol.append({"sig": f"C13|x64_flag_after_ctx|{before}->{after}", "cls": "x64_flag_after_ctx", "detail": {"effective_before_entering_the_users_context": before, "after_leaving_it": after, "note": "a conversion inside the user's jax.enable_x64(...) block changed the global flag"}, "replay_ops": list(executed)})
                jax.config.update("jax_enable_x64", before)
    elif kind == "gc":
        gc.collect()
        stats["gc_collect"] += 1
    elif kind == "user_rebind":
        if not w.control:
            _user_rebind(w, op.get("what", "class_call"))
            stats["user_rebinds"] += 1
    elif kind == "decorate_late":
        if not w.control and not w.late_done:
            from jax2onnx import onnx_function
            from sim.fixtures import lib

            onnx_function(lib.LateBlock)
            w.ws.refresh_new_function_targets()
            w.late_done = True
            stats["late_decorations"] += 1
    elif kind == "decorate_nested":
        if not w.control:
            from jax2onnx import onnx_function

            def _nested_target(x):  # a closure: its module has no such attribute
                return x * 2.0

            onnx_function(_nested_target)
            stats["nested_decorations"] += 1
    log.add(i=idx, op=kind, value=op.get("value"))


def _flag_drift(w: World, idx: int, viol: list, stats: Counter, rops: list) -> None:
    """Between two operations nobody but the user touches the flag: its effective value must be what
    the user's own set_x64 / enable_x64 operations imply (a conversion whose restore step runs late -
    e.g. when the caller drops the exception - is seen here)."""
    import jax

    now = bool(jax.config.jax_enable_x64)
    exp = w.expected_flag()
    stats["flag_checks_between_operations"] += 1
    if now != exp:
        viol.append({"sig": f"C13|x64_flag_drift|{exp}->{now}", "cls": "x64_flag_drift", "detail": {"expected_from_user_operations": exp, "effective": now, "before_operation_index": idx}, "replay_ops": list(rops)})
        # resynchronise so that one leak is one report
        try:
            jax.config.update("jax_enable_x64", exp) if not w.x64_ctx else None
        except Exception:
            pass


def _fresh(viol: list, plan: dict) -> bool:
    """True when some recorded violation is not a listed known finding (known
    findings are reported but do not stop the run)."""
    import re

    pats = plan.get("known", [])
    for v in viol:
        if not any(re.fullmatch(p, v["sig"]) for p in pats):
            return True
    return False


def _user_rebind(w: World, what: str) -> None:
    """The user legitimately re-binds an attribute the converter also patches
    (a semantically identical pass-through, so eager expectations are unchanged).
    From now on the converter must restore the user's object."""
    import functools

    from sim.fixtures import lib

    if what == "class_call":
        tgt: Any = lib.PlainScale
        attr = "__call__"
    elif what == "module_function":
        tgt = lib
        attr = "fn_sin2"
    else:
        import flax.nnx as nnx

        tgt = nnx
        attr = "relu"
    old = getattr(tgt, attr)

    if what == "class_call":

        def __call__(self, x):  # noqa: N807
            return old(self, x)

        new: Any = __call__
    else:

        @functools.wraps(old)
        def new(*a, **k):
            return old(*a, **k)

    setattr(tgt, attr, new)
    w.ws.rebase(tgt, attr)
    w.base.rebase(tgt, attr)


def run(plan: dict) -> dict:
    from sim.runtime import boot

    boot(plan)
    w = World(plan)
    log = EventLog()
    viol: list[dict] = []
    stats: Counter = Counter()
    executed: list[dict] = []
    unfinished: list[dict] = []
    samples: list = []
    ops = list(plan["ops"])
    i = 0
    while i < len(ops):
        op = ops[i]
        kind = op["op"]
        if kind == "enum":
            # discover the site count with a fault-free dry run (checked too)
            pid = op["pid"]
            dry = {"op": "convert", "pid": pid, "over": op.get("over", {})}
            _do_convert(w, dry, i, log, viol, stats, executed)
            n = w.nsites.get(pid, 0)
            stats["enum_programs"] += 1
            stats["enum_sites_total"] = stats["enum_sites_total"] + n
            sh_i, sh_n = op.get("shard", [0, 1])
            subs = []
            lo = (n * sh_i) // sh_n
            hi = (n * (sh_i + 1)) // sh_n
            stride = max(1, int(op.get("stride", 1)))
            offset = int(op.get("offset", 0)) % stride
            for k in range(lo, hi):
                if k % stride != offset:
                    continue
                for e in op.get("excs", ["SimFault", "SimInterrupt"]):
                    subs.append({"op": "convert", "pid": pid, "over": op.get("over", {}), "fault": {"k": k, "exc": e}, "collect_after_raise": False})
            if len(samples) < 2 and subs:
                samples.append(subs[len(subs) // 3])
            if _fresh(viol, plan):
                unfinished = subs + ops[i + 1 :]
                break
            # enumerated single-fault conversions: replay = dry run + the faulted conversion
            stop = False
            for s_i, s in enumerate(subs):
                ex1: list[dict] = [dry]
                _do_convert(w, s, i, log, viol, stats, ex1)
                stats["enum_faulted_conversions"] += 1
                if _fresh(viol, plan):
                    unfinished = subs[s_i + 1 :] + ops[i + 1 :]
                    stop = True
                    break
                if (s_i + 1) % 250 == 0:
                    # what dropped exceptions kept alive is finalised here (a collection per faulted
                    # conversion would dominate the enumeration's cost)
                    gc.collect()
                    _flag_drift(w, i, viol, stats, [dry] + subs[max(0, s_i - 249) : s_i + 1] + [{"op": "gc"}])
                    if _fresh(viol, plan):
                        unfinished = subs[s_i + 1 :] + ops[i + 1 :]
                        stop = True
                        break
                if (s_i + 1) % int(op.get("sweep_every", 2000)) == 0:
                    _do_sweep(w, {"op": "sweep"}, i, log, viol, stats, [])
                    if _fresh(viol, plan):
                        viol[-1]["replay_ops"] = [dry] + subs[: s_i + 1] + [{"op": "sweep"}]
                        unfinished = subs[s_i + 1 :] + ops[i + 1 :]
                        stop = True
                        break
            if stop:
                break
            i += 1
            continue
        if not w.control and kind in ("convert", "eager", "sweep", "gc", "exit_x64_ctx", "enter_x64_ctx", "set_x64"):
            _flag_drift(w, i, viol, stats, executed + [op])
        if kind == "convert":
            _do_convert(w, op, i, log, viol, stats, executed)
        elif kind == "eager":
            _do_eager(w, op, i, log, viol, stats, executed)
        elif kind == "sweep":
            _do_sweep(w, op, i, log, viol, stats, executed)
        else:
            _do_misc(w, op, i, log, viol, stats, executed)
        if len(samples) < 3 and kind == "convert" and op.get("fault"):
            samples.append(executed[-1])
        if _fresh(viol, plan) and plan.get("stop_on_violation", True):
            unfinished = ops[i + 1 :]
            break
        i += 1
    stats["ops_executed"] = stats["ops_executed"] + len(executed)
    stats["eager_outputs_bitwise_different_from_control"] = _DIGEST_MISMATCH[0]
    return {
        "violations": viol,
        "stats": dict(stats),
        "log_digest": log.digest(),
        "n_events": len(log.lines),
        "eager": w.eager_out,
        "unfinished": unfinished if plan.get("report_unfinished", False) else [],
        "n_unfinished": len(unfinished),
        "samples": samples,
        "history_sig": digest([(o.get("op"), o.get("pid"), bool(o.get("fault"))) for o in executed]),
    }


# ---------------------------------------------------------------------------
# coordinator side
# ---------------------------------------------------------------------------

FAULT_REGIONS = ["_lower_and_call", "wrapped", "lower_equation_with_plugin", "lower_jaxpr_with_plugins", "_activate_full_plugin_worlds_for_body", "_build_and_finalize_ir_model", "_trace_to_jaxpr", "apply_monkey_patches", "_optimize_graph_with_failure_policy", "to_onnx"]
FIX = "fx::c13::"
ENUM_QUICK = ["flat", "net", "outer", "fn_boundary_f64"]
ENUM_THOROUGH = ["flat", "net", "outer", "fn_boundary", "eqx_block", "plain", "kwblock", "flat_f64", "fn_boundary_f64", "cf_nested"]
PROBE_PIDS = ["flat", "net", "outer", "fn_boundary", "eqx_block", "plain", "jit_cold", "jit_cold2", "kwblock", "cf_nested", "eqx_rope", "ckpt_fn"]


def gen_history(seed: int, run: int, registry: list[str], n_ops: int) -> list[dict]:
    r = rng("c13-history", seed, run)
    fixtures = [FIX + n for n in ["flat", "net", "outer", "fn_boundary", "eqx_block", "plain", "jit_cold", "jit_cold2", "flat_f64", "fn_boundary_f64", "cf_nested", "kwblock", "cf_fn_in_scan", "eqx_rope", "eqx_rope_long", "ckpt_fn"]]
    reg_pool = r.sample(registry, min(len(registry), 6)) if registry else []
    pool = fixtures + reg_pool
    probes = [FIX + n for n in PROBE_PIDS] + reg_pool[:3]
    ops: list[dict] = []
    late = r.random() < 0.5
    nested_poison = r.random() < 0.15
    open_ctx = 0
    for j in range(n_ops):
        u = r.random()
        if u < 0.55:
            pid = r.choice(pool)
            op: dict = {"op": "convert", "pid": pid}
            v = r.random()
            if v < 0.15:
                op["fault"] = {"k_frac": round(r.random(), 6), "exc": r.choice(["SimFault", "SimInterrupt"])}
            elif v < 0.30:
                op["fault"] = {"region": [r.choice(FAULT_REGIONS), r.randrange(0, 40)], "exc": r.choice(["SimFault", "SimInterrupt"])}
            elif v < 0.36:
                op["fault"] = {"named": r.choice(["user_raises_before", "user_raises_after", "nested_convert", "nested_convert_raises"])}
            w_ = r.random()
            if "region" in (op.get("fault") or {}) and op["fault"]["region"][0] in ("_lower_and_call", "wrapped", "_activate_full_plugin_worlds_for_body", "lower_jaxpr_with_plugins") and r.random() < 0.4:
                # a failure inside a function body while the conversion runs in the OTHER precision
                op["over"] = {"enable_double_precision": True}
            elif w_ < 0.15:
                op["over"] = {"enable_double_precision": True}
            elif w_ < 0.25:
                op["over"] = {"return_mode": "ir"}
            elif w_ < 0.33:
                op["over"] = {"return_mode": "file"}
            ops.append(op)
        elif u < 0.78:
            ops.append({"op": "eager", "pid": r.choice(probes)})
        elif u < 0.82:
            ops.append({"op": "set_x64", "value": r.random() < 0.5})
        elif u < 0.86:
            if open_ctx and r.random() < 0.6:
                ops.append({"op": "exit_x64_ctx"})
                open_ctx -= 1
            elif open_ctx < 2:
                ops.append({"op": "enter_x64_ctx", "value": r.random() < 0.6})
                open_ctx += 1
        elif u < 0.90:
            ops.append({"op": "gc"})
        elif u < 0.92:
            ops.append({"op": "user_rebind", "what": r.choice(["class_call", "module_function", "library_function"])})
        elif u < 0.96:
            ops.append({"op": "sweep"})
        elif late:
            ops.append({"op": "decorate_late"})
            ops.append({"op": "convert", "pid": FIX + "late"})
        else:
            ops.append({"op": "gc"})
    for _ in range(open_ctx):
        ops.append({"op": "exit_x64_ctx"})
    ops.append({"op": "set_x64", "value": False})
    for p in probes:
        ops.append({"op": "eager", "pid": p})
    ops.append({"op": "sweep"})
    if nested_poison:
        ops.append({"op": "decorate_nested"})
        ops.append({"op": "convert", "pid": FIX + "flat"})
        ops.append({"op": "sweep"})
    return ops


def control_plan(plans: list[dict]) -> dict:
    """No conversions: the same eager probes under both ambient flag values,
    plus a full sweep, to produce expectations and measured namespace noise."""
    pids: list[str] = []
    conv: list[str] = []
    for p in plans:
        for o in p["ops"]:
            if o["op"] == "eager" and o["pid"] not in pids:
                pids.append(o["pid"])
            if o["op"] == "convert" and o["pid"] not in conv:
                conv.append(o["pid"])
    ops: list[dict] = [{"op": "convert", "pid": c} for c in conv]
    for val in (False, True):
        ops.append({"op": "set_x64", "value": val})
        for pid in pids:
            ops.append({"op": "eager", "pid": pid})
    ops.append({"op": "set_x64", "value": False})
    ops.append({"op": "sweep"})
    return {"property": PROP, "hashseed": 0, "control": True, "ops": ops}


def main(tier: str) -> int:
    from sim import coordinator as co

    t0 = time.time()
    seed = cm.verif_seed()
    budget = float(os.environ.get("VERIF_BUDGET_S", "1500" if tier == "thorough" else "420"))
    print(f"[C13] VERIF_SEED={seed} tier={tier} budget={budget}s repo={co.repo_dir()}")
    inv = co.run_plans([{"property": "C16", "ops": [{"op": "list_registry"}]}], timeout=300)[0]
    if not inv or inv.get("status") != "ok":
        print(f"HARNESS-ERROR property=C13 inventory failed: {inv}")
        return 2
    registry = inv["registry"]
    n_hist = int(os.environ.get("VERIF_C13_HISTORIES", "96" if tier == "thorough" else "24"))
    n_ops = 90 if tier == "thorough" else 45
    hist_plans = [
        {"property": PROP, "hashseed": 0, "ops": gen_history(seed, r_, registry, n_ops), "kind": "history", "run": r_}
        for r_ in range(n_hist)
    ]
    enum_names = ENUM_THOROUGH if tier == "thorough" else ENUM_QUICK
    enum_plans = []
    strides: dict[str, int] = {}
    for name in enum_names:
        # quick: the flat program exhaustively, programs with re-entrant
        # activations on a seeded 1-in-8 lattice; thorough: everything exhaustively
        stride = 1 if (tier == "thorough" or name == "flat") else int(os.environ.get("VERIF_C13_STRIDE", "16"))
        strides[name] = stride
        shards = 16 if tier == "thorough" else (8 if name == "flat" else 4)
        off = rng("c13-offset", seed, name).randrange(stride)
        for s in range(shards):
            enum_plans.append({"property": PROP, "hashseed": 0, "kind": "enum", "report_unfinished": False, "ops": [{"op": "enum", "pid": FIX + name, "shard": [s, shards], "stride": stride, "offset": off}]})
    # cold-process faults: the very first conversion of an interpreter takes first-time-only
    # paths (abstract-eval binding, lazy imports); one seeded site per fresh interpreter
    n_cold = int(os.environ.get("VERIF_C13_COLD", "96" if tier == "thorough" else "16"))
    cold_plans = []
    rc = rng("c13-cold", seed)
    for i in range(n_cold):
        pid = FIX + rc.choice(["flat", "net", "outer", "fn_boundary"])
        if rc.random() < 0.5:
            fault = {"k_frac": round(rc.random(), 6), "exc": rc.choice(["SimFault", "SimInterrupt"])}
        else:
            fault = {"region": [rc.choice(["ensure_abstract_eval_bound", "plugin_binding", "_resolve", "apply_patches", "_activate_plugin_worlds", "import_all_plugins", "_iter_patch_specs"]), rc.randrange(0, 600)], "exc": rc.choice(["SimFault", "SimInterrupt"])}
        cold_plans.append({"property": PROP, "hashseed": 0, "kind": "cold", "ops": [{"op": "convert", "pid": pid, "fault": fault, "n_hint": 10300}, {"op": "convert", "pid": pid}, {"op": "eager", "pid": pid}, {"op": "sweep"}]})
    # a fixed probe for the listed known finding, so that it is observed (and printed) on every
    # run while it exists, independent of what the seeded histories happen to contain
    cold_plans.append({"property": PROP, "hashseed": 0, "kind": "known_finding_probe", "ops": [
        {"op": "convert", "pid": FIX + "jit_cold"}, {"op": "eager", "pid": FIX + "jit_cold"},
        {"op": "convert", "pid": FIX + "jit_cold2"}, {"op": "eager", "pid": FIX + "jit_cold2"}, {"op": "sweep"}]})
    # stage 1: control (expectations + namespace noise)
    ctl = co.run_plans([control_plan(hist_plans + cold_plans)], timeout=900)[0]
    if not ctl or ctl.get("status") != "ok":
        print(f"HARNESS-ERROR property=C13 control history failed: {str(ctl)[:1500]}")
        return 2
    eager_exp = dict(ctl.get("eager", {}))
    noise = list(eager_exp.pop("__noise__", []))
    known_pats = [k["pattern"] for k in co.load_known() if k.get("property") == PROP and k.get("status", "known") == "known" and k.get("pattern")]
    for p in hist_plans + enum_plans + cold_plans:
        p["known"] = known_pats
        p["ignore"] = noise
        used = {f"{o['pid']}|{b}{sfx}" for o in p["ops"] if o["op"] == "eager" for b in (0, 1) for sfx in ("", "|jit")}
        p["expect_eager"] = {k: v for k, v in eager_exp.items() if k in used}
    # the listed known finding's probe first (it must be observed on every run), then cold-process faults and
    # histories, then the bulk enumeration: under load the start deadline cuts enumeration shards, nothing else
    plans = cold_plans[-1:] + cold_plans[:-1] + hist_plans + enum_plans
    results = co.run_plans(plans, timeout=max(900.0, budget), deadline=t0 + budget)
    stats: Counter = Counter()
    samples: list = []
    hsigs = set()
    n_unfinished = 0
    for r in results:
        if not r:
            continue
        for k, v in r.get("stats", {}).items():
            if k in ("full_sweep_entries", "dispatch_table_entries"):
                stats[k] = max(stats[k], v)
            else:
                stats[k] += v
        samples.extend(r.get("samples", [])[:1])
        if r.get("history_sig"):
            hsigs.add(r["history_sig"])
        n_unfinished += r.get("n_unfinished", 0)
    wall = max(time.time() - t0, 1e-6)
    walls: dict[str, list] = {}
    for p_, r_ in zip(plans, results):
        if r_:
            walls.setdefault(p_.get("kind", "?"), []).append(round(r_.get("wall", 0.0), 1))
    fault_in = {k[9:]: v for k, v in stats.items() if k.startswith("fault_in:")}
    evidence = {
        "property_id": PROP,
        "level": "fault_enumeration",
        "coverage": {
            "evaluations": stats.get("conversions", 0),
            "distinct_nontrivial": stats.get("fault_fired_SimFault", 0) + stats.get("fault_fired_SimInterrupt", 0) + sum(v for k, v in stats.items() if k.startswith("fault_named_")),
            "rule": "evaluation = one to_onnx call inside a simulated history (fresh interpreter) followed by the host-state oracle; non-trivial & distinct = a faulted conversion whose injected exception actually fired (counted by the injector) at a distinct (program, CALL-site ordinal, exception class) in the enumeration part, or a (history, position) in the seeded-history part; fault-free conversions and faults that were never reached are counted only in evaluations",
            "samples": samples[:6] or [{"note": "none"}],
            "exhaustive": False,
            "enumeration": {"programs": enum_names, "sites_total_over_shards": stats.get("enum_sites_total", 0), "faulted_conversions": stats.get("enum_faulted_conversions", 0), "exception_classes": ["SimFault", "SimInterrupt"], "site_stride_per_program": strides, "complete": n_unfinished == 0 and all(r is not None for r in results)},
            "cold_process_faulted_first_conversions": n_cold,
            "histories": {"count": n_hist, "ops_each": n_ops, "distinct_history_signatures": len(hsigs)},
            "faults_fired_by_kind": {k: v for k, v in stats.items() if k.startswith("fault_fired_") or k.startswith("fault_named_")},
            "faults_fired_by_function": dict(sorted(fault_in.items(), key=lambda kv: -kv[1])[:25]),
            "probes": {
                "fault_in_function_body_path": stats.get("probe_fault_in_function_body_path", 0),
                "fault_not_reached": stats.get("fault_not_reached", 0),
                "fault_surfaced_as_other_exception": stats.get("fault_surfaced_as_other_exception", 0),
                "conversions_returned": stats.get("conversions_returned", 0),
                "conversions_raised": stats.get("conversions_raised", 0),
                "eager_probes": stats.get("eager_probes", 0),
                "eager_outputs_bitwise_different_from_control": stats.get("eager_outputs_bitwise_different_from_control", 0),
                "eager_bitwise_differences_by_probe": {k[8:]: v for k, v in stats.items() if k.startswith("bitdiff:")},
                "eager_jit_and_eval_shape_probes_of_converted_callable": stats.get("eager_jit_probes", 0),
                "eager_probes_after_conversion_of_same_program": stats.get("eager_probes_after_conversion_of_same_program", 0),
                "full_sweeps": stats.get("full_sweeps", 0),
                "full_sweep_entries": stats.get("full_sweep_entries", 0),
                "host_dispatch_table_entries_in_sweep": stats.get("dispatch_table_entries", 0),
                "late_decorations": stats.get("late_decorations", 0),
                "nested_decorations": stats.get("nested_decorations", 0),
                "set_x64": stats.get("set_x64", 0),
                "user_rebinds": stats.get("user_rebinds", 0),
                "x64_ctx_entered": stats.get("x64_ctx_entered", 0),
                "x64_ctx_exited": stats.get("x64_ctx_exited", 0),
                "gc_collect": stats.get("gc_collect", 0),
            },
            "namespace_noise_ignored": noise,
            "interpreter_wall_s": {k: {"n": len(v), "max": max(v), "sum": round(sum(v), 1)} for k, v in walls.items()},
            "simulated_time": "n/a (no timers on this path); logical steps = operations",
            "runs_per_hour": round(len([r for r in results if r]) / wall * 3600, 1),
            "operations_per_hour": round((stats.get("ops_executed", 0) + stats.get("enum_faulted_conversions", 0)) / wall * 3600, 1),
            "real_vs_stub": {"real": "jax2onnx, JAX, Flax, Equinox, onnx_ir, onnx; eager JAX execution for behaviour probes", "stub": "only the injected exceptions (sys.monitoring CALL callback) and the two named user-code faults"},
        },
        "assumptions": [
            "fault model: a call made by converter code raises instead of running; calls inside finally/except cleanup suites, implicit __exit__ calls and total container operations are never faulted; asynchronous interrupts between two arbitrary lines are out of model",
            "namespace oracle compares identity of statically resolved attributes against a baseline taken after import and before any conversion; attributes that also change in a conversion-free control history are excluded and listed",
            "eager behaviour is compared with a conversion-free control interpreter (bit digests, falling back to 1e-5 relative on summary statistics)",
        ],
    }
    return co.report(PROP, tier, seed, plans=plans, results=results, evidence=evidence, t0=t0)

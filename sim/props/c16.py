"""C16 — failure is loud; partial optimisation never changes results.

Crash points enumerated per program:
  * optimizer: every pass index k (top level) and every (function j, pass k),
    under the default (swallow) policy and under the strict env switch;
  * lowering: every equation-dispatch ordinal e over the whole jaxpr tree,
    seven fault modes (registry miss / plugin binds nothing / plugin binds a
    value no node produces / plugin raises / an input of the equation is
    unbound when it is reached / plugin returns too many values / plugin
    returns a non-value);
  * a catalogue of named unsupported constructs (fixtures).
Every verdict is relative to the fault-free control of the same program in
the same interpreter.
"""
from __future__ import annotations

import os
import time
from collections import Counter
from typing import Any

from sim.common import EventLog, digest, rng, sub_seed

PROP = "C16"
STRICT_ENV = "JAX2ONNX_STRICT_OPTIMIZER_FAILURES"

# ---------------------------------------------------------------------------
# worker side
# ---------------------------------------------------------------------------


class _Ctl:
    """Fault-free control of one program (computed once per interpreter)."""

    def __init__(self) -> None:
        self.ok = False
        self.reason = ""
        self.prog: Any = None
        self.proto: Any = None
        self.n_pass = 0
        self.n_fn = 0
        self.eqns: list[dict] = []
        self.valid = False
        self.valid_msg = ""
        self.loadable = False
        self.inputs: list = []
        self.ort: list | None = None
        self.jax_ok = False
        self.jax_msg = ""
        self.digest = ""


_CONTROLS: dict[str, _Ctl] = {}


def _count_dispatch(fn_convert):
    """Run fn_convert() while recording every plugin dispatch (ordinal,
    primitive, number of non-drop outvars)."""
    from jax2onnx.converter import lowering_dispatch as ld
    from jax2onnx.converter.output_binding import is_drop_var

    rec: list[dict] = []
    real = ld.dispatch_plugin_lowering

    def spy(plugin, *, ctx, eqn, primitive_name, source, converter=None):
        rec.append(
            {
                "prim": primitive_name,
                "source": source,
                "nondrop": sum(1 for v in getattr(eqn, "outvars", ()) if not is_drop_var(v)),
            }
        )
        return real(plugin, ctx=ctx, eqn=eqn, primitive_name=primitive_name, source=source, converter=converter)

    ld.dispatch_plugin_lowering = spy
    try:
        out = fn_convert()
    finally:
        ld.dispatch_plugin_lowering = real
    return out, rec


def control(pid: str) -> _Ctl:
    if pid in _CONTROLS:
        return _CONTROLS[pid]
    from sim import oracle, programs
    from sim.runtime import to_onnx_program
    from jax2onnx.converter import ir_optimizations as io

    c = _Ctl()
    _CONTROLS[pid] = c
    try:
        c.prog = programs.materialize(pid)
    except Exception as exc:
        c.reason = f"materialize:{type(exc).__name__}"
        return c
    os.environ.pop(STRICT_ENV, None)
    try:
        c.proto, c.eqns = _count_dispatch(lambda: to_onnx_program(c.prog))
    except Exception as exc:
        c.reason = f"control_convert:{type(exc).__name__}"
        return c
    c.ok = True
    c.n_pass = len(io._OPTIMIZER_PASSES)
    c.n_fn = len(c.proto.functions)
    c.digest = oracle.proto_digest(c.proto)
    c.valid, c.valid_msg = oracle.check_model(c.proto)
    c.loadable, _ = oracle.ort_loadable(c.proto)
    if c.loadable and not c.prog.skip_numeric:
        try:
            c.inputs = c.prog.make_inputs(0)
            kw = c.prog.kwargs
            c.ort = oracle.ort_run(c.proto, c.inputs, kw.get("input_params"), kw.get("inputs_as_nchw"))
            jx = oracle.jax_run(c.prog.fn, c.inputs, kw.get("input_params"), c.prog.x64)
            c.jax_ok, c.jax_msg = oracle.compare(jx, c.ort, rtol=c.prog.rtol, atol=c.prog.atol, outputs_as_nchw=kw.get("outputs_as_nchw"))
        except Exception as exc:
            c.ort = None
            c.jax_ok = False
            c.jax_msg = f"numeric_control:{type(exc).__name__}"
    return c


def _passes_with_abort(k: int, scope: str, j: int, exc: BaseException):
    from jax2onnx.converter import ir_optimizations as io

    real = io._OPTIMIZER_PASSES
    P = real[k]
    fired = {"n": 0, "calls": 0}

    def boom(_obj):
        fired["n"] += 1
        raise exc

    if scope == "top":
        repl = io._OptimizerPass(
            name=P.name,
            model_runner=boom if P.model_runner is not None else None,
            graph_runner=boom if (P.graph_runner is not None and P.model_runner is None) else P.graph_runner,
            function_graph_runner=P.function_graph_runner,
        )
    else:
        orig = P.function_graph_runner

        def fn_runner(graph):
            idx = fired["calls"]
            fired["calls"] += 1
            if idx == j:
                fired["n"] += 1
                raise exc
            return orig(graph)

        repl = io._OptimizerPass(
            name=P.name,
            model_runner=P.model_runner,
            graph_runner=P.graph_runner,
            function_graph_runner=fn_runner if orig is not None else None,
        )
    new = tuple(repl if i == k else p for i, p in enumerate(real))
    return real, new, fired


def op_opt_abort(op: dict, log: EventLog, viol: list, stats: Counter) -> None:
    from sim import oracle
    from sim.runtime import SimFault, to_onnx_program
    from jax2onnx.converter import ir_optimizations as io

    pid, k, scope, j, strict = op["pid"], int(op["k"]), op.get("scope", "top"), int(op.get("j", 0)), bool(op.get("strict", False))
    c = control(pid)
    if not c.ok:
        log.add(op="opt_abort", pid=pid, skipped=c.reason)
        stats["skipped_no_control"] += 1
        return
    if k >= c.n_pass or (scope == "fn" and j >= c.n_fn):
        log.add(op="opt_abort", pid=pid, skipped="out_of_range")
        return
    exc = SimFault(f"sim: optimizer pass {k} aborted ({scope}{j if scope == 'fn' else ''})")
    real, new, fired = _passes_with_abort(k, scope, j, exc)
    if scope == "fn" and real[k].function_graph_runner is None:
        log.add(op="opt_abort", pid=pid, k=k, scope=scope, j=j, skipped="pass_has_no_function_runner")
        return
    io._OPTIMIZER_PASSES = new
    # the switch is an environment variable read at failure time: the history of values it had in
    # this process (set / unset / "0" / "false" / "true") is part of the crash point
    envv = op.get("env", "1" if strict else None)
    if envv is None:
        os.environ.pop(STRICT_ENV, None)
    else:
        os.environ[STRICT_ENV] = str(envv)
    stats[f"strict_env_value:{envv!r}"] += 1
    raised: BaseException | None = None
    proto = None
    try:
        proto = to_onnx_program(c.prog)
    except BaseException as e:  # noqa: BLE001 - the verdict is about what escapes
        raised = e
    finally:
        io._OPTIMIZER_PASSES = real
        os.environ.pop(STRICT_ENV, None)
    where = f"{scope}{j}" if scope == "fn" else "top"
    base = f"pid={pid}|where={where}|k={k}"
    stats[f"fault_opt_abort_{'strict' if strict else 'default'}_{scope}"] += 1
    if not fired["n"]:
        # the crash point was never reached (e.g. pipeline restructured): no verdict
        stats["opt_abort_not_fired"] += 1
        log.add(op="opt_abort", pid=pid, k=k, where=where, strict=strict, fired=False)
        return
    verdicts: dict[str, Any] = {}
    if strict:
        if raised is None:
            viol.append({"sig": f"C16|strict_swallowed|{base}", "cls": "strict_swallowed", "detail": "strict optimizer-failure setting returned a model although pass aborted", "replay_ops": [op]})
        verdicts["raised"] = type(raised).__name__ if raised else None
    else:
        if raised is not None:
            viol.append({"sig": f"C16|default_raised|{base}", "cls": "default_raised", "detail": f"default policy raised {type(raised).__name__}: {raised}", "replay_ops": [op]})
            verdicts["raised"] = type(raised).__name__
        else:
            stats["aborted_models_checked"] += 1
            verdicts["digest_equal_control"] = oracle.proto_digest(proto) == c.digest
            if not verdicts["digest_equal_control"]:
                stats["aborted_model_differs_from_control"] += 1
            okf, msgf, _ = oracle.function_structure(proto)
            if not okf:
                viol.append({"sig": f"C16|default_bad_functions|{base}", "cls": "default_bad_functions", "detail": msgf, "replay_ops": [op]})
            if c.valid:
                ok, msg = oracle.check_model(proto)
                verdicts["valid"] = ok
                if not ok:
                    kind = "shape_inference" if "nference" in msg else "checker"
                    viol.append({"sig": f"C16|default_invalid|{base}|class={kind}", "cls": f"default_invalid_{kind}", "detail": msg, "replay_ops": [op]})
            if c.loadable:
                ok, msg = oracle.ort_loadable(proto)
                verdicts["loadable"] = ok
                if not ok:
                    viol.append({"sig": f"C16|default_unloadable|{base}", "cls": "default_unloadable", "detail": msg, "replay_ops": [op]})
                elif c.ort is not None and c.jax_ok:
                    kw = c.prog.kwargs
                    try:
                        got = oracle.ort_run(proto, c.inputs, kw.get("input_params"), kw.get("inputs_as_nchw"))
                        ok, msg = oracle.compare(c.ort, got, rtol=c.prog.rtol, atol=c.prog.atol)
                    except Exception as e:
                        ok, msg = False, f"ort_run:{type(e).__name__}: {str(e)[:200]}"
                    verdicts["numeric"] = ok
                    stats["aborted_models_numeric"] += 1
                    if not ok:
                        viol.append({"sig": f"C16|default_wrong|{base}", "cls": "default_wrong", "detail": msg, "replay_ops": [op]})
    log.add(op="opt_abort", pid=pid, k=k, where=where, strict=strict, fired=True, verdicts=verdicts)


def op_lower_fault(op: dict, log: EventLog, viol: list, stats: Counter) -> None:
    from sim.runtime import SimFault, to_onnx_program
    from jax2onnx.converter import lowering_dispatch as ld
    from jax2onnx.converter.output_binding import is_drop_var
    import onnx_ir as ir

    pid, e, mode = op["pid"], int(op["e"]), op["mode"]
    c = control(pid)
    if not c.ok:
        log.add(op="lower_fault", pid=pid, skipped=c.reason)
        stats["skipped_no_control"] += 1
        return
    if e >= len(c.eqns):
        log.add(op="lower_fault", pid=pid, skipped="out_of_range")
        return
    info = c.eqns[e]
    state = {"n": 0, "fired": 0}
    real_get = ld.get_registered_lowering_plugin
    real_disp = ld.dispatch_plugin_lowering

    def get_wrapper(registry, primitive_name, *, source, detail=None):
        idx = state["n"]
        if mode == "miss":
            state["n"] += 1
            if idx == e:
                state["fired"] += 1
                return real_get({}, primitive_name, source=source, detail=detail)
        return real_get(registry, primitive_name, source=source, detail=detail)

    def disp_wrapper(plugin, *, ctx, eqn, primitive_name, source, converter=None):
        idx = state["n"]
        if mode not in ("miss", "unbind_input"):
            state["n"] += 1
            if idx == e:
                state["fired"] += 1
                if mode == "nobind":
                    return None
                if mode == "raise":
                    raise SimFault(f"sim: plugin lowering of equation #{idx} raised")
                if mode == "wrongcount":
                    n_out = sum(1 for v in getattr(eqn, "outvars", ()) if not is_drop_var(v))
                    return [ir.Value(name=f"sim_extra_{idx}_{q}") for q in range(n_out + 1)]
                if mode == "wrongtype":
                    return "sim: not an ir.Value"
                if mode == "dangling":
                    for v in getattr(eqn, "outvars", ()):
                        if is_drop_var(v):
                            continue
                        ctx.bind_value_for_var(v, ir.Value(name=f"sim_dangling_{idx}"))
                    return None
        return real_disp(plugin, ctx=ctx, eqn=eqn, primitive_name=primitive_name, source=source, converter=converter)

    real_leq = ld.lower_equation_with_plugin

    def leq_wrapper(plugin, *, ctx, eqn, primitive_name, eqn_index, source, converter=None):
        # "unbind_input": the value an upstream equation should have bound for one of this
        # equation's inputs is missing when the equation is reached
        if mode == "unbind_input":
            idx = state["n"]
            state["n"] += 1
            if idx == e:
                v2v = ctx.builder._var2val
                for v in getattr(eqn, "invars", ()):
                    try:
                        if not is_drop_var(v) and type(v).__name__ == "Var" and v in v2v:
                            del v2v[v]
                            state["fired"] += 1
                            break
                    except TypeError:
                        continue
        return real_leq(plugin, ctx=ctx, eqn=eqn, primitive_name=primitive_name, eqn_index=eqn_index, source=source, converter=converter)

    ld.get_registered_lowering_plugin = get_wrapper
    ld.dispatch_plugin_lowering = disp_wrapper
    ld.lower_equation_with_plugin = leq_wrapper
    raised = None
    try:
        to_onnx_program(c.prog)
    except BaseException as ex:  # noqa: BLE001
        raised = ex
    finally:
        ld.get_registered_lowering_plugin = real_get
        ld.dispatch_plugin_lowering = real_disp
        ld.lower_equation_with_plugin = real_leq
    stats[f"fault_lower_{mode}"] += 1
    if not state["fired"]:
        stats["lower_fault_not_fired"] += 1
        log.add(op="lower_fault", pid=pid, e=e, mode=mode, fired=False)
        return
    nested = info["source"] != "converter"
    if nested:
        stats["lower_fault_in_nested_body"] += 1
    must_raise = mode in ("miss", "raise", "unbind_input") or info["nondrop"] > 0
    if raised is None and must_raise:
        viol.append(
            {
                "sig": f"C16|lower_silent|pid={pid}|mode={mode}|e={e}",
                "cls": f"lower_silent_{mode}",
                "detail": f"to_onnx returned a model although lowering of equation #{e} ({info['prim']}, source={info['source']}) was faulted ({mode})",
                "replay_ops": [op],
            }
        )
    log.add(op="lower_fault", pid=pid, e=e, mode=mode, prim=info["prim"], source=info["source"], raised=type(raised).__name__ if raised else None, must_raise=must_raise)


def op_catalogue(op: dict, log: EventLog, viol: list, stats: Counter) -> None:
    """Named unsupported / delicate construct: loud or correct.  to_onnx must
    raise, or the returned model must agree with eager JAX on every listed
    input set (all branch choices / trip counts)."""
    from sim import oracle, programs
    from sim.runtime import to_onnx_program

    pid = op["pid"]
    # history: constructs converted first in this interpreter (their own outcome is not judged here);
    # what they leave behind (caches keyed by jaxpr / callable / primitive) must not make the judged one silent
    for pre in op.get("pre", []):
        try:
            to_onnx_program(programs.materialize(pre))
        except BaseException:  # noqa: BLE001
            pass
        stats["catalogue_history_elements"] += 1
    try:
        prog = programs.materialize(pid)
    except Exception as exc:
        log.add(op="catalogue", pid=pid, skipped=f"materialize:{type(exc).__name__}")
        stats["skipped_no_control"] += 1
        return
    raised = None
    model = None
    try:
        model = to_onnx_program(prog)
    except BaseException as ex:  # noqa: BLE001
        raised = ex
    stats["catalogue_entries"] += 1
    verdict = None
    if raised is not None:
        stats["catalogue_loud"] += 1
    else:
        stats["catalogue_exported"] += 1
        okf, msgf, _ = oracle.function_structure(model)
        if not okf:
            viol.append({"sig": f"C16|catalogue_partial_model|pid={pid}", "cls": "catalogue_partial_model", "detail": f"construct {pid} exported without error but the model is partial: {msgf}", "replay_ops": [op]})
        loadable, lmsg = oracle.ort_loadable(model)
        if not loadable:
            # an export the runtime refuses to load is loud at load time, not a silently
            # different model: C03's matter, no C16 verdict (counted and listed)
            stats["catalogue_exported_unloadable"] += 1
            verdict = "unloadable"
        else:
            for xs in prog.meta.get("input_sets", [prog.make_inputs(0)]):
                try:
                    jx = oracle.jax_run(prog.fn, xs, None, prog.x64)
                except Exception:
                    continue
                try:
                    got = oracle.ort_run(model, xs)
                except Exception as e:
                    stats["catalogue_runtime_error"] += 1
                    verdict = f"runtime_error:{type(e).__name__}"
                    break
                ok, msg = oracle.compare(jx, got, rtol=prog.rtol, atol=prog.atol)
                verdict = ok
                if not ok:
                    viol.append({"sig": f"C16|catalogue_silently_wrong|pid={pid}", "cls": "catalogue_silently_wrong", "detail": f"construct {pid} exported without error, loads and runs, but disagrees with JAX on {[np_shape(x) for x in xs]}: {msg}", "replay_ops": [op]})
                    break
            if verdict is True:
                stats["catalogue_exported_correct"] += 1
    log.add(op="catalogue", pid=pid, raised=type(raised).__name__ if raised else None, correct=verdict)
    _CATALOGUE_OUTCOMES[pid + ("|after:" + ",".join(q.rsplit("::", 1)[1] for q in op["pre"]) if op.get("pre") else "")] = "loud" if raised is not None else ("correct" if verdict is True else str(verdict))


_CATALOGUE_OUTCOMES: dict[str, str] = {}
_EXECUTED: list[dict] = []  # opt_abort operations executed so far in this interpreter (explicit, replayable)


def np_shape(x: Any) -> Any:
    import numpy as np

    a = np.asarray(x)
    return a.tolist() if a.ndim == 0 else list(a.shape)


def expand_enum(op: dict) -> list[dict]:
    """Explicit crash-point list for one program (needs the control)."""
    pid = op["pid"]
    c = control(pid)
    if not c.ok:
        return []
    if len(c.eqns) > int(op.get("max_eqns", 10**9)):
        # deterministic size cut for the quick tier (every crash point re-converts the program)
        c.reason = "too_large_for_tier"
        return []
    subs: list[dict] = []
    if op.get("opt", True):
        dvals = [None, "0", None, "false", None, "0"]
        svals = ["1", "true", "1", "TRUE"]
        for k in range(c.n_pass):
            subs.append({"op": "opt_abort", "pid": pid, "k": k, "scope": "top", "strict": False, "env": dvals[k % len(dvals)]})
        strict_ks = list(range(c.n_pass))
        if not op.get("all_modes", False):
            # quick tier: the strict verdict is only raise-vs-return; first, last and four seeded pass indices
            rs = rng("c16-strict", op.get("seed", 0), pid)
            strict_ks = sorted({0, c.n_pass - 1, *rs.sample(range(c.n_pass), min(4, c.n_pass))})
        for q_, k in enumerate(strict_ks):
            subs.append({"op": "opt_abort", "pid": pid, "k": k, "scope": "top", "strict": True, "env": svals[q_ % len(svals)]})
            if q_ % 2 == 1:
                # and back: a default-policy abort right after a strict one in the same process
                subs.append({"op": "opt_abort", "pid": pid, "k": k, "scope": "top", "strict": False, "env": dvals[(q_ // 2) % len(dvals)]})
        fn_cap = int(op.get("fn_cap", 4))
        for j in range(min(c.n_fn, fn_cap)):
            for k in range(c.n_pass):
                subs.append({"op": "opt_abort", "pid": pid, "k": k, "scope": "fn", "j": j, "strict": False})
            # strict in function scope: sample two pass indices
            for k in (1, c.n_pass - 2):
                subs.append({"op": "opt_abort", "pid": pid, "k": k, "scope": "fn", "j": j, "strict": True})
    if op.get("lowering", True):
        n = len(c.eqns)
        cap = int(op.get("eqn_cap", 10**9))
        if n <= cap:
            idxs = list(range(n))
        else:
            r = rng("c16-eqn", op.get("seed", 0), pid)
            # keep all nested-body equations in preference, then fill
            nested = [i for i, q in enumerate(c.eqns) if q["source"] != "converter"]
            r.shuffle(nested)
            rest = [i for i in range(n) if c.eqns[i]["source"] == "converter"]
            r.shuffle(rest)
            idxs = sorted((nested[: cap // 2] + rest)[:cap])
        extra = ("raise", "unbind_input", "wrongcount", "wrongtype")
        for e in idxs:
            modes = ("miss", "nobind", "dangling") + (extra if op.get("all_modes", False) else (extra[e % len(extra)],))
            for mode in modes:
                subs.append({"op": "lower_fault", "pid": pid, "e": e, "mode": mode})
    return subs


def run(plan: dict) -> dict:
    from sim.runtime import boot

    boot(plan)
    log = EventLog()
    viol: list[dict] = []
    stats: Counter = Counter()
    handlers = {"opt_abort": op_opt_abort, "lower_fault": op_lower_fault, "catalogue": op_catalogue}
    samples: list = []
    programs_done: list[dict] = []
    def with_history(n_before: int, op_: dict) -> None:
        # violations of the policy half may depend on the history of the strict switch in this process
        for v in viol[n_before:]:
            if v.get("cls") in ("strict_swallowed", "default_raised"):
                v["replay_ops_with_history"] = list(_EXECUTED) + [op_]

    for op in plan["ops"]:
        if op["op"] == "list_registry":
            from sim import programs

            return {"status": "ok", "violations": [], "stats": {}, "registry": programs.load_registry()}
        if op["op"] == "enum":
            subs = expand_enum(op)
            c = control(op["pid"])
            stats["programs"] += 1
            if c.reason == "too_large_for_tier":
                stats["programs_skipped_too_large_for_tier"] += 1
                log.add(op="enum", pid=op["pid"], skipped=c.reason, n_eqn=len(c.eqns))
                programs_done.append({"pid": op["pid"], "control": c.reason, "eqns": len(c.eqns)})
                _CONTROLS.pop(op["pid"], None)
                continue
            if not c.ok:
                stats["programs_without_control"] += 1
                log.add(op="enum", pid=op["pid"], skipped=c.reason)
                programs_done.append({"pid": op["pid"], "control": c.reason})
                continue
            stats["programs_with_control"] += 1
            if c.n_fn:
                stats["programs_with_functions"] += 1
            if any(q["source"] != "converter" for q in c.eqns):
                stats["programs_with_nested_bodies"] += 1
            if not c.valid:
                stats["controls_invalid"] += 1
            if not c.jax_ok:
                stats["controls_without_numeric_verdict"] += 1
            log.add(op="enum", pid=op["pid"], n_eqn=len(c.eqns), n_fn=c.n_fn, n_sub=len(subs), control_digest=c.digest, control_valid=c.valid, control_jax=c.jax_ok)
            programs_done.append({"pid": op["pid"], "eqns": len(c.eqns), "fns": c.n_fn, "crash_points": len(subs), "control_valid": c.valid, "control_numeric": c.jax_ok})
            for s in subs:
                n_before = len(viol)
                handlers[s["op"]](s, log, viol, stats)
                with_history(n_before, s)
                if s["op"] == "opt_abort":
                    _EXECUTED.append(s)
                stats["crash_points"] += 1
            if len(samples) < 3 and subs:
                samples.append(subs[len(subs) // 2])
            # free the control to bound memory
            _CONTROLS.pop(op["pid"], None)
        else:
            n_before = len(viol)
            handlers[op["op"]](op, log, viol, stats)
            with_history(n_before, op)
            if op["op"] == "opt_abort":
                _EXECUTED.append(op)
            stats["crash_points"] += 1
    return {
        "violations": viol,
        "stats": dict(stats),
        "log_digest": log.digest(),
        "n_events": len(log.lines),
        "samples": samples,
        "programs": programs_done,
        "catalogue_outcomes": dict(_CATALOGUE_OUTCOMES),
    }


# ---------------------------------------------------------------------------
# coordinator side
# ---------------------------------------------------------------------------

_BIAS = ("cond", "while", "fori", "scan", "switch", "onnx_functions", "loop", "jit", "pjit", "remat", "custom_vjp")


def select_programs(registry: list[str], tier: str, seed: int) -> list[str]:
    fixtures = fixture_ids()
    if tier == "thorough":
        n = int(os.environ.get("VERIF_C16_PROGRAMS", "100000"))
    else:
        n = int(os.environ.get("VERIF_C16_PROGRAMS", "100"))
    r = rng("c16-select", seed)
    biased = [p for p in registry if any(b in p.lower() for b in _BIAS)]
    others = [p for p in registry if p not in set(biased)]
    r.shuffle(biased)
    r.shuffle(others)
    if n >= len(registry):
        chosen = sorted(registry)
        r.shuffle(chosen)
    else:
        nb = min(len(biased), n // 2)
        chosen = biased[:nb] + others[: n - nb]
    return fixtures + chosen


def fixture_ids() -> list[str]:
    from sim.fixtures import ids

    return ids("c16")


def catalogue_ids() -> list[str]:
    from sim.fixtures import ids

    return ids("c16cat") + ids("c16var")


def main(tier: str) -> int:
    from sim import coordinator as co
    from sim.common import verif_seed

    t0 = time.time()
    seed = verif_seed()
    budget = float(os.environ.get("VERIF_BUDGET_S", "1500" if tier == "thorough" else "420"))
    print(f"[C16] VERIF_SEED={seed} tier={tier} budget={budget}s repo={co.repo_dir()}")
    inv = co.run_plans([{"property": PROP, "ops": [{"op": "list_registry"}]}], timeout=300)[0]
    if not inv or inv.get("status") != "ok":
        print(f"HARNESS-ERROR property=C16 inventory failed: {inv}")
        return 2
    registry = inv["registry"]
    pids = select_programs(registry, tier, seed)
    eqn_cap = 10**9 if tier == "thorough" else 24
    fn_cap = 8 if tier == "thorough" else 3
    n_shards = max(1, min(len(pids), co.JOBS * (6 if tier == "thorough" else 2)))
    shards: list[list[dict]] = [[] for _ in range(n_shards)]
    for i, pid in enumerate(pids):
        shards[i % n_shards].append({"op": "enum", "pid": pid, "eqn_cap": eqn_cap, "fn_cap": fn_cap, "seed": seed, "max_eqns": 10**9 if tier == "thorough" else 250, "all_modes": tier == "thorough"})
    for i, cid in enumerate(catalogue_ids()):
        shards[i % n_shards].append({"op": "catalogue", "pid": cid})
    from sim.fixtures import _index as _fx_index

    for i, seq in enumerate(_fx_index.INDEX.get("c16cat_seq", [])):
        # own interpreter each: the history must be exactly the listed one
        shards.append([{"op": "catalogue", "pid": f"fx::c16cat::{seq[-1]}", "pre": [f"fx::c16cat::{q}" for q in seq[:-1]]}])
    plans = [{"property": PROP, "hashseed": 0, "ops": ops} for ops in shards if ops]
    results = co.run_plans(plans, timeout=max(600.0, budget), deadline=t0 + budget)
    stats: Counter = Counter()
    samples: list = []
    progs: list = []
    digests = set()
    cat_out: dict[str, str] = {}
    for r in results:
        if not r:
            continue
        cat_out.update(r.get("catalogue_outcomes", {}))
        stats.update(r.get("stats", {}))
        samples.extend(r.get("samples", [])[:1])
        progs.extend(r.get("programs", []))
        if r.get("log_digest"):
            digests.add(r["log_digest"])
    wall = max(time.time() - t0, 1e-6)
    cp = stats.get("crash_points", 0)
    fired = {k: v for k, v in stats.items() if k.startswith("fault_")}
    evidence = {
        "property_id": PROP,
        "level": "fault_enumeration",
        "coverage": {
            "evaluations": cp,
            "distinct_nontrivial": cp - stats.get("opt_abort_not_fired", 0) - stats.get("lower_fault_not_fired", 0) - stats.get("skipped_no_control", 0),
            "rule": "one evaluation = one faulted to_onnx call at an explicit crash point (program, pass index k top-level or (function j, pass k), default/strict policy) or (program, equation-dispatch ordinal e, fault mode); all are distinct by construction; non-trivial = the injected fault actually fired inside the conversion (counted by the seam), trivial = crash point never reached or program had no fault-free control",
            "samples": samples[:6] or [{"note": "no crash point executed"}],
            "exhaustive": tier == "thorough" and all(r is not None for r in results),
            "programs": stats.get("programs", 0),
            "programs_with_control": stats.get("programs_with_control", 0),
            "programs_skipped_too_large_for_tier": stats.get("programs_skipped_too_large_for_tier", 0),
            "programs_with_functions": stats.get("programs_with_functions", 0),
            "programs_with_nested_bodies": stats.get("programs_with_nested_bodies", 0),
            "registry_size": len(registry),
            "faults_fired_by_kind": fired,
            "probes": {
                "aborted_models_checked": stats.get("aborted_models_checked", 0),
                "aborted_model_differs_from_control": stats.get("aborted_model_differs_from_control", 0),
                "aborted_models_numeric": stats.get("aborted_models_numeric", 0),
                "lower_fault_in_nested_body": stats.get("lower_fault_in_nested_body", 0),
                "catalogue_entries": stats.get("catalogue_entries", 0),
                "catalogue_loud": stats.get("catalogue_loud", 0),
                "catalogue_exported_and_checked_correct": stats.get("catalogue_exported_correct", 0),
                "catalogue_exported_but_runtime_refuses_to_load_or_run": stats.get("catalogue_exported_unloadable", 0) + stats.get("catalogue_runtime_error", 0),
                "controls_invalid_no_validity_verdict": stats.get("controls_invalid", 0),
                "controls_without_numeric_verdict": stats.get("controls_without_numeric_verdict", 0),
            },
            "simulated_time": "n/a (no timers on this path); logical steps = crash points",
            "runs_per_hour": round(len([r for r in results if r]) / wall * 3600, 1),
            "crash_points_per_hour": round(cp / wall * 3600, 1),
            "distinct_run_logs": len(digests),
            "real_vs_stub": {
                "real": "jax2onnx (all of /repo), JAX tracing, onnx_ir passes, onnx checker, onnxruntime",
                "stub": "only the injected exception at pass entry and the seven misbehaving-lowering stand-ins (empty registry / returns nothing / binds an unproduced value / raises / input unbound / too many values / non-value)",
            },
            "program_table_head": progs[:8],
            "catalogue_entries_neither_loud_nor_checked_correct": {k: v for k, v in sorted(cat_out.items()) if v not in ("loud", "correct")},
        },
        "assumptions": [
            "crash points are pass boundaries (pass entry); mid-pass aborts are outside the property's quantifier",
            "numeric verdicts are relative to the fault-free control of the same program on the same seeded inputs; programs whose control is invalid/inaccurate give no verdict for that sub-oracle",
            "ORT runs single-threaded with graph optimisations disabled",
        ],
    }
    return co.report(PROP, tier, seed, plans=plans, results=results, evidence=evidence, t0=t0)

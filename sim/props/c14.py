"""C14 — export is deterministic and independent of history.

One simulated run = one fresh interpreter under an explicit schedule
(PYTHONHASHSEED, plugin import permutation, optimizer node-set iteration
permutation, ir.Node/ir.Value hash values, GC points, allocation
perturbation) executing an explicit history (other conversions, faulted
conversions, late decorations, precision-flag neighbours, repeats).  Every
successful measured conversion must serialise (deterministic=True) to the
digest a canonical interpreter produced for the same request.
"""
from __future__ import annotations

import gc
import os
import random
import time
from collections import Counter
from typing import Any

import sim.common as cm
from sim.common import EventLog, digest, rng, sub_seed

PROP = "C14"

# ---------------------------------------------------------------------------
# worker side: seams
# ---------------------------------------------------------------------------

_PROBES: Counter = Counter()


def install_objhash(seed: int) -> None:
    """ir.Node / ir.Value hash values come from a seeded stream (first hash
    request of an object draws the next value); objects are kept alive."""
    import onnx_ir as ir

    r = random.Random(sub_seed("objhash", seed))
    table: dict[int, tuple[int, Any, int]] = {}
    seq = [0]

    def _h(self: Any) -> int:
        ent = table.get(id(self))
        if ent is None or ent[1] is not self:
            seq[0] += 1
            ent = (r.getrandbits(60), self, seq[0])
            table[id(self)] = ent
        return ent[0]

    for cls in (ir.Node, ir.Value):
        if cls.__hash__ is object.__hash__:
            cls.__hash__ = _h  # type: ignore[method-assign]
            _PROBES["objhash_classes_patched"] += 1
    install_objhash.table = table  # type: ignore[attr-defined]


def _canon_key(x: Any) -> tuple:
    table = getattr(install_objhash, "table", None)
    if table is not None:
        ent = table.get(id(x))
        if ent is not None and ent[1] is x:
            return (0, ent[2], "")
    if isinstance(x, (str, int, float, bytes, tuple, bool)):
        return (1, 0, repr(x))
    seqs = _canon_key.seqs  # type: ignore[attr-defined]
    ent2 = seqs.get(id(x))
    if ent2 is None or ent2[1] is not x:
        ent2 = (len(seqs) + 1, x)
        seqs[id(x)] = ent2
    return (2, ent2[0], "")


_canon_key.seqs = {}  # type: ignore[attr-defined]


def install_simset(seed: int | None, log: EventLog) -> None:
    """Shadow the name `set` in the optimizer module: every node-set it builds
    iterates in a seeded permutation of a canonical order."""
    from jax2onnx.converter import ir_optimizations as io

    r = random.Random(sub_seed("setorder", seed)) if seed is not None else None

    class SimSet(set):
        __slots__ = ()

        def __iter__(self):  # type: ignore[override]
            items = list(set.__iter__(self))
            if len(items) >= 2:
                items.sort(key=_canon_key)
                _PROBES["simset_iter_ge2"] += 1
                if r is not None:
                    before = list(items)
                    r.shuffle(items)
                    if any(a is not b for a, b in zip(before, items)):
                        _PROBES["simset_iter_nonidentity"] += 1
            return iter(items)

    io.set = SimSet  # type: ignore[attr-defined]


def install_gc_points(mode: str, k: int) -> None:
    from jax2onnx.converter import conversion_api as ca
    from jax2onnx.converter import lowering_dispatch as ld

    if mode == "never":
        return
    real_ctx = ca._create_ir_context

    def ctx_wrapper(**kw: Any) -> Any:
        gc.collect()
        _PROBES["gc_between_trace_and_lowering"] += 1
        return real_ctx(**kw)

    ca._create_ir_context = ctx_wrapper
    if mode == "every_k":
        real = ld.dispatch_plugin_lowering
        cnt = [0]

        def disp(plugin: Any, **kw: Any) -> Any:
            cnt[0] += 1
            if cnt[0] % max(k, 1) == 0:
                gc.collect()
                _PROBES["gc_between_equations"] += 1
            return real(plugin, **kw)

        ld.dispatch_plugin_lowering = disp


def _reqkey(op: dict) -> str:
    over = op.get("over") or {}
    return op["pid"] + ("" if not over else "|" + cm.canon(over)) + ("" if op.get("mut") is None else f"|mut={int(op['mut'])}")


def _struct_diff(a: Any, b: Any) -> str:
    try:
        if len(a.graph.node) != len(b.graph.node):
            return f"node count {len(a.graph.node)} vs {len(b.graph.node)}"
        for i, (x, y) in enumerate(zip(a.graph.node, b.graph.node)):
            if x.SerializeToString(deterministic=True) != y.SerializeToString(deterministic=True):
                return f"node#{i}: {x.op_type}[{x.name}]({list(x.input)})->{list(x.output)} vs {y.op_type}[{y.name}]({list(y.input)})->{list(y.output)}"
        if [i.name for i in a.graph.initializer] != [i.name for i in b.graph.initializer]:
            return f"initializer names differ"
        for x, y in zip(a.graph.initializer, b.graph.initializer):
            if x.SerializeToString(deterministic=True) != y.SerializeToString(deterministic=True):
                return f"initializer {x.name} differs"
        if len(a.functions) != len(b.functions):
            return f"function count {len(a.functions)} vs {len(b.functions)}"
        for x, y in zip(a.functions, b.functions):
            if x.SerializeToString(deterministic=True) != y.SerializeToString(deterministic=True):
                return f"function {x.domain}:{x.name} vs {y.domain}:{y.name} differs"
        if [v.name for v in a.graph.value_info] != [v.name for v in b.graph.value_info]:
            return "value_info names/order differ"
        return "differs outside nodes/initializers/functions (value_info, io, metadata)"
    except Exception as exc:
        return f"diff failed: {type(exc).__name__}"


def run(plan: dict) -> dict:
    from sim.runtime import boot, exc_class

    boot(plan)
    log = EventLog()
    sched = plan.get("schedule", {})
    if sched.get("objhash_seed") is not None:
        install_objhash(int(sched["objhash_seed"]))
    install_simset(sched.get("setorder_seed"), log)
    install_gc_points(sched.get("gc_mode", "never"), int(sched.get("gc_k", 7)))

    import onnx
    from jax2onnx import to_onnx
    from sim import faults, oracle, programs
    from sim.fixtures import lib  # noqa: F401

    inj = faults.Injector() if any(o.get("fault") for o in plan["ops"]) else None
    reference: dict = plan.get("reference", {})
    ref_dir = plan.get("reference_dir")
    write_dir = plan.get("write_reference_dir")
    viol: list[dict] = []
    stats: Counter = Counter()
    progs: dict[str, Any] = {}
    seen_digest: dict[str, str] = {}
    digests: dict[str, Any] = {}
    executed: list[dict] = []
    garbage: list = []
    cost: dict[str, float] = {}
    nsites = 9000
    late_done = False
    mut_state: dict[str, int] = {}
    for idx, op in enumerate(plan["ops"]):
        kind = op["op"]
        executed.append(op)
        if kind == "gc":
            gc.collect()
            stats["gc_collect"] += 1
            log.add(i=idx, op="gc")
            continue
        if kind == "garbage":
            r = random.Random(sub_seed("garbage", op.get("seed", 0)))
            n = int(op.get("n", 1000))
            garbage.append([object() for _ in range(n)] + [bytearray(r.randrange(16, 4096)) for _ in range(n // 10)])
            if len(garbage) > 3 and r.random() < 0.5:
                garbage.pop(r.randrange(len(garbage)))
            stats["garbage_ops"] += 1
            log.add(i=idx, op="garbage", n=n)
            continue
        if kind == "decorate_late":
            if not late_done:
                from jax2onnx import onnx_function

                onnx_function(lib.LateBlock)
                late_done = True
                stats["late_decorations"] += 1
            log.add(i=idx, op="decorate_late")
            continue
        if kind != "convert":
            raise ValueError(kind)
        pid = op["pid"]
        key = _reqkey(op)
        try:
            if op.get("fresh") or pid not in progs:
                progs[pid] = programs.materialize(pid)
                if op.get("fresh"):
                    stats["twin_instances"] += 1
            prog = progs[pid]
        except Exception as exc:
            log.add(i=idx, op="convert", req=key, skipped=f"materialize:{type(exc).__name__}")
            stats["skipped_unmaterializable"] += 1
            continue
        kw = prog.to_onnx_kwargs()
        kw.update(op.get("over") or {})
        if op.get("mut") is not None:
            # the user updates the live instances in place (training step / checkpoint load): the request
            # is "these objects in state s"; what was exported from them before must not matter
            lib.apply_state(pid.rsplit("::", 1)[1], int(op["mut"]))
            stats["probe_in_place_state_applied"] += 1
            if mut_state.get(pid) not in (None, int(op["mut"])):
                stats["probe_export_after_in_place_update_of_exported_instances"] += 1
            mut_state[pid] = int(op["mut"])
        fault = op.get("fault")
        raised = None
        proto = None
        if fault and inj is not None:
            E = exc_class(fault.get("exc", "SimFault"))
            if "region" in fault:
                inj.start(None, lambda: E("sim: injected"), region=tuple(fault["region"]))
            else:
                k = int(fault["k"]) if "k" in fault else int(float(fault["k_frac"]) * nsites)
                inj.start(k, lambda: E("sim: injected"))
        t_conv = time.perf_counter()
        try:
            proto = to_onnx(prog.fn, list(prog.inputs), **kw)
        except BaseException as e:  # noqa: BLE001
            raised = e
        finally:
            cost[key] = max(cost.get(key, 0.0), time.perf_counter() - t_conv)  # diagnostics only, never logged
            if fault and inj is not None:
                inj.stop()
                if inj.fired:
                    stats["faults_fired"] += 1
        stats["conversions"] += 1
        if fault:
            stats["faulted_conversions"] += 1
            log.add(i=idx, op="convert", req=key, fault=True, raised=type(raised).__name__ if raised else None)
            continue
        if raised is not None:
            stats["conversions_raised"] += 1
            ref = reference.get(key)
            if ref is not None and ref.get("digest"):
                viol.append({"sig": f"C14|outcome_changed|req={key}|raised={type(raised).__name__}", "cls": "outcome_changed", "detail": f"canonical interpreter exported this request, here it raised {type(raised).__name__}: {str(raised)[:200]}", "replay_ops": list(executed)})
            digests.setdefault(key, {"raised": type(raised).__name__})
            log.add(i=idx, op="convert", req=key, raised=type(raised).__name__)
            continue
        dg = oracle.proto_digest(proto)
        stats["measured_exports"] += 1
        digests.setdefault(key, {"digest": dg})
        if write_dir:
            os.makedirs(write_dir, exist_ok=True)
            pth = os.path.join(write_dir, digest(key) + ".onnx")
            if not os.path.exists(pth):
                with open(pth, "wb") as f:
                    f.write(proto.SerializeToString(deterministic=True))
        if not op.get("fresh"):
            prev = seen_digest.get(key)
            if prev is not None:
                stats["repeats_compared"] += 1
                if prev != dg:
                    viol.append({"sig": f"C14|repeat_mismatch|req={key}", "cls": "repeat_mismatch", "detail": f"same callable object exported twice in one process: {prev} then {dg}", "replay_ops": list(executed)})
            seen_digest[key] = dg
        ref = reference.get(key)
        verdict = None
        if ref is not None and ref.get("eligible"):
            stats["compared_with_reference"] += 1
            verdict = ref["digest"] == dg
            if not verdict:
                d = ""
                if ref_dir:
                    pth = os.path.join(ref_dir, digest(key) + ".onnx")
                    if os.path.exists(pth):
                        d = _struct_diff(onnx.load(pth), proto)
                viol.append({"sig": f"C14|digest_mismatch|req={key}", "cls": "digest_mismatch", "detail": f"reference {ref['digest']} vs {dg}; first difference: {d}", "replay_ops": list(executed)})
        log.add(i=idx, op="convert", req=key, digest=dg, ok=verdict)
    for k_, v_ in _PROBES.items():
        stats["probe_" + k_] = v_
    return {
        "violations": viol,
        "stats": dict(stats),
        "log_digest": log.digest(),
        "digests": digests,
        "cost_s": {k: round(v, 3) for k, v in cost.items()},
        "schedule_sig": digest([plan.get("hashseed"), plan.get("import_perm_seed"), plan.get("import_perm_frac"), sched, [(o.get("op"), o.get("pid"), bool(o.get("fault"))) for o in plan["ops"]]]),
        "samples": [{"schedule": sched, "hashseed": plan.get("hashseed"), "import_perm_seed": plan.get("import_perm_seed"), "ops_head": plan["ops"][:6]}],
    }


# ---------------------------------------------------------------------------
# coordinator side
# ---------------------------------------------------------------------------

FAULT_REGIONS = ["_lower_and_call", "wrapped", "lower_equation_with_plugin", "lower_jaxpr_with_plugins", "_activate_full_plugin_worlds_for_body", "_build_and_finalize_ir_model", "_trace_to_jaxpr", "apply_monkey_patches", "_optimize_graph_with_failure_policy", "to_onnx"]
FX = ["flat", "flat_f64", "net", "outer", "fn_boundary", "fn_kw", "eqx_block", "plain", "ublock_pair", "two_same", "two_diff", "kwblock", "resconv_nchw", "resconv", "chanattn_nchw", "transpose_forest", "reshape_chain", "cf_cond", "cf_fori", "cf_while", "cf_scan", "cf_nested", "fn_boundary_f64", "autoflags", "gather_const_idx", "dead_cast", "f16_cast_chain", "named_io", "implicit_fn_a", "implicit_fn_b", "dead_fn_call"]
_BIAS = ("nchw", "transpose", "conv", "resblock", "attention", "onnx_functions", "reshape", "vit", "cnn")


def requests(registry: list[str], tier: str, seed: int) -> list[dict]:
    r = rng("c14-req", seed)
    n = int(os.environ.get("VERIF_C14_REQUESTS", "600" if tier == "thorough" else "90"))
    biased = [p for p in registry if any(b in p.lower() for b in _BIAS)]
    others = [p for p in registry if p not in set(biased)]
    r.shuffle(biased)
    r.shuffle(others)
    nb = min(len(biased), n // 2)
    chosen = biased[:nb] + others[: max(0, n - nb)]
    reqs = [{"op": "convert", "pid": f"fx::c14::{x}"} for x in FX]
    reqs += [{"op": "convert", "pid": "fx::c14::flat", "over": {"enable_double_precision": True}}, {"op": "convert", "pid": "fx::c14::net", "over": {"opset": 21}}]
    # live instances updated in place between exports: one request per (program, state); adjacent entries
    # land in different canonical interpreters, so every reference is a first export of those objects
    reqs += [{"op": "convert", "pid": f"fx::c14::{n}", "mut": st} for n in ("ublock_twins", "block_twins") for st in (0, 1, 2, 3)]
    reqs += [{"op": "convert", "pid": p} for p in chosen]
    return reqs


def gen_run(seed: int, run: int, reqs: list[dict], n_meas: int) -> dict:
    r = rng("c14-run", seed, run)
    sched = {
        "setorder_seed": None if run % 5 == 0 else r.getrandbits(32),
        "objhash_seed": None if run % 4 == 0 else r.getrandbits(32),
        "gc_mode": r.choice(["never", "never", "between", "every_k"]),
        "gc_k": r.choice([1, 3, 7, 20]),
    }
    hashseed = 0 if run % 7 == 0 else r.getrandbits(32)
    import_perm = None if run % 3 == 0 else r.getrandbits(32)
    picked = r.sample(reqs, min(len(reqs), n_meas))
    # requests that only show a dependence on history next to a particular companion: the companion is
    # converted right before them in most runs (the canonical reference is computed without it being adjacent)
    companions = {"fx::c14::implicit_fn_a": "fx::c14::implicit_fn_b", "fx::c14::implicit_fn_b": "fx::c14::implicit_fn_a", "fx::c14::fn_kw": "fx::c14::flat", "fx::c14::gather_const_idx": "fx::c14::gather_const_idx"}
    by_pid = {q["pid"]: q for q in reqs if not q.get("over") and q.get("mut") is None}
    forced = [by_pid[p_] for p_ in r.sample(sorted(companions), 2) if p_ in by_pid]
    # programs that reach multi-member node sets in the optimizer (only 14 of 1626 registry programs do):
    # every run measures two of them, so the set-order / object-hash schedule always has something to bite on
    node_set_sensitive = [p_ for p_ in ("fx::c14::resconv_nchw", "fx::c14::chanattn_nchw", "fx::c14::transpose_forest", "fx::c14::reshape_chain", "fx::c14::resconv") if p_ in by_pid]
    forced += [by_pid[p_] for p_ in r.sample(node_set_sensitive, min(2, len(node_set_sensitive)))]
    for q in forced:
        if q not in picked:
            picked.insert(r.randrange(len(picked) + 1), q)
    muts = [q for q in reqs if q.get("mut") is not None]
    if muts:
        for q in r.sample(muts, min(2, len(muts))):
            if q not in picked:
                picked.insert(r.randrange(len(picked) + 1), q)
    ops: list[dict] = []
    late = r.random() < 0.4
    for q in picked:
        u = r.random()
        if u < 0.25:
            # a failing conversion right before the measured request; half of the time it is the
            # measured request itself that fails first and is then retried (the natural history)
            other = q if r.random() < 0.5 else r.choice(reqs)
            if r.random() < 0.4:
                ops.append({**other, "fault": {"k_frac": round(r.random(), 6), "exc": r.choice(["SimFault", "SimInterrupt"])}})
            else:
                # n-th call inside a named region (function-body trace / lowering, finalisation ...);
                # small n are much more likely to exist in every region
                region = r.choice(FAULT_REGIONS)
                nth = r.randrange(0, 45) if region == "to_onnx" else int(40 * r.random() ** 3)
                ops.append({**other, "fault": {"region": [region, nth], "exc": r.choice(["SimFault", "SimInterrupt"])}})
        elif u < 0.35:
            ops.append({"op": "gc"})
        elif u < 0.5:
            ops.append({"op": "garbage", "n": r.choice([100, 1000, 20000]), "seed": r.getrandbits(16)})
        elif u < 0.58:
            # precision neighbour
            ops.append({**r.choice(reqs[:8]), "over": {"enable_double_precision": True}})
        elif u < 0.62 and late:
            ops.append({"op": "decorate_late"})
            ops.append({"op": "convert", "pid": "fx::c14::late"})
        if q["pid"] in companions and not q.get("over") and companions[q["pid"]] in by_pid and r.random() < 0.8:
            ops.append(dict(by_pid[companions[q["pid"]]]))
        if q.get("mut") is not None and r.random() < 0.8:
            # export the same live objects in another state first, then update them in place
            ops.append({**q, "mut": r.choice([s_ for s_ in (0, 1, 2, 3) if s_ != q["mut"]])})
        op = dict(q)
        if r.random() < 0.2 and q.get("mut") is None:
            op["fresh"] = True
        ops.append(op)
        for _ in range(r.choice([0, 0, 0, 1, 2])):
            ops.append(dict(q))
    # the user may have imported only a few plugin modules (in any order) before the library's own discovery runs
    frac = r.choice([1.0, 1.0, 0.3, 0.05])
    return {"property": PROP, "hashseed": hashseed, "import_perm_seed": import_perm, "import_perm_frac": frac, "schedule": sched, "ops": ops, "run": run}


def main(tier: str) -> int:
    from sim import coordinator as co

    t0 = time.time()
    seed = cm.verif_seed()
    budget = float(os.environ.get("VERIF_BUDGET_S", "1500" if tier == "thorough" else "420"))
    print(f"[C14] VERIF_SEED={seed} tier={tier} budget={budget}s repo={co.repo_dir()}")
    inv = co.run_plans([{"property": "C16", "ops": [{"op": "list_registry"}]}], timeout=300)[0]
    if not inv or inv.get("status") != "ok":
        print(f"HARNESS-ERROR property=C14 inventory failed: {inv}")
        return 2
    reqs = requests(inv["registry"], tier, seed)
    wd = co.workdir()
    ref_dir = os.path.join(wd, "c14-ref")
    # stage 1: canonical interpreters, two copies of each shard
    nsh = 8
    canon_plans = []
    for s in range(nsh):
        ops = reqs[s::nsh]
        for copy in range(2):
            canon_plans.append({"property": PROP, "hashseed": 0, "import_perm_seed": None, "schedule": {"gc_mode": "never"}, "ops": ops, "write_reference_dir": ref_dir if copy == 0 else None, "canon": [s, copy]})
    cres = co.run_plans(canon_plans, timeout=900)
    reference: dict = {}
    harness_pre: list[str] = []
    for s in range(nsh):
        a, b = cres[2 * s], cres[2 * s + 1]
        if not a or not b or a.get("status") not in ("ok", "violation") or b.get("status") not in ("ok", "violation"):
            harness_pre.append(f"canonical shard {s} failed: {str(a)[:300]} {str(b)[:300]}")
            continue
        for key, va in a.get("digests", {}).items():
            vb = b.get("digests", {}).get(key)
            if "digest" in va:
                reference[key] = {"digest": va["digest"], "eligible": bool(vb and vb.get("digest") == va["digest"])}
                if key.startswith("fx::") and vb and vb.get("digest") and vb["digest"] != va["digest"]:
                    # fixture requests are seeded by construction: two canonical interpreters (same hash seed,
                    # same import order, no history) that disagree on one means the export depends on something
                    # nobody controls (clock, pid, address) - reported as a mismatch of the second copy
                    # against the first, replayable as [that request] with the first copy's digest as reference
                    op_ = next((o for o in canon_plans[2 * s + 1]["ops"] if _reqkey(o) == key), None)
                    if op_ is not None:
                        canon_plans[2 * s + 1].setdefault("reference", {})[key] = {"digest": va["digest"], "eligible": True}
                        b.setdefault("violations", []).append({"sig": f"C14|digest_mismatch|req={key}", "cls": "digest_mismatch", "detail": f"two canonical interpreters disagree on a seeded fixture request: {va['digest']} vs {vb['digest']}", "replay_ops": [op_]})
            else:
                reference[key] = {"digest": None, "eligible": False, "raised": va.get("raised")}
    # quick tier: leave out requests whose canonical conversion is slow
    slow_cut = float(os.environ.get("VERIF_C14_SLOW_S", "1e9" if tier == "thorough" else "1.5"))
    cost: dict[str, float] = {}
    for r_ in cres:
        if r_:
            for k_, v_ in r_.get("cost_s", {}).items():
                cost[k_] = max(cost.get(k_, 0.0), v_)
    n_before = len(reqs)
    reqs = [q for q in reqs if cost.get(_reqkey(q), 0.0) <= slow_cut]
    n_elig = sum(1 for v in reference.values() if v["eligible"])
    n_inelig = sum(1 for v in reference.values() if v["digest"] and not v["eligible"])
    canon_viol = [v for r in cres if r for v in r.get("violations", [])]
    # stage 2: simulated runs
    n_runs = int(os.environ.get("VERIF_C14_RUNS", "160" if tier == "thorough" else "28"))
    n_meas = 60 if tier == "thorough" else 24
    plans = []
    for i in range(n_runs):
        p = gen_run(seed, i, reqs, n_meas)
        keys = {_reqkey(o) for o in p["ops"] if o["op"] == "convert"}
        p["reference"] = {k: v for k, v in reference.items() if k in keys}
        p["reference_dir"] = ref_dir
        plans.append(p)
    results = co.run_plans(plans, timeout=max(900.0, budget), deadline=t0 + budget)
    # repeat-mismatch violations seen in the canonical stage are real too
    all_plans = canon_plans + plans
    all_results = list(cres) + list(results)
    stats: Counter = Counter()
    sigs = set()
    samples = []
    for r in results:
        if not r:
            continue
        stats.update(r.get("stats", {}))
        if r.get("schedule_sig"):
            sigs.add(r["schedule_sig"])
        if len(samples) < 4:
            samples.extend(r.get("samples", []))
    wall = max(time.time() - t0, 1e-6)
    warnings = []
    for probe in ("probe_simset_iter_nonidentity", "probe_gc_between_trace_and_lowering", "faults_fired", "twin_instances", "repeats_compared"):
        if stats.get(probe, 0) == 0:
            warnings.append(f"probe {probe} stayed at zero")
    evidence = {
        "property_id": PROP,
        "level": "exploration",
        "coverage": {
            "evaluations": stats.get("measured_exports", 0),
            "distinct_nontrivial": len(sigs),
            "rule": "evaluation = one successful measured export compared byte-for-byte (deterministic serialisation) with the canonical interpreter's digest of the same request and with earlier exports of the same callable in the same process; distinct non-trivial = distinct simulated runs, i.e. distinct tuples (PYTHONHASHSEED, plugin import permutation, set-iteration permutation seed, object-hash seed, GC mode, history of operations) counted by their sha256",
            "samples": samples[:4] or [{"note": "none"}],
            "exhaustive": False,
            "requests": len(reqs),
            "requests_dropped_as_slow_in_this_tier": n_before - len(reqs),
            "requests_eligible_cross_process": n_elig,
            "requests_ineligible_unseeded_construction": n_inelig,
            "compared_with_reference": stats.get("compared_with_reference", 0),
            "repeats_compared_in_process": stats.get("repeats_compared", 0),
            "schedules": {"runs": len([r for r in results if r]), "distinct": len(sigs)},
            "faults_fired_by_kind": {"history_fault_SimFault_or_SimInterrupt": stats.get("faults_fired", 0)},
            "probes": {k: v for k, v in stats.items() if k.startswith("probe_") or k in ("twin_instances", "late_decorations", "gc_collect", "garbage_ops", "faulted_conversions", "conversions_raised")},
            "probe_warnings": warnings,
            "simulated_time": "n/a (no timers); logical steps = operations",
            "runs_per_hour": round(len([r for r in results if r]) / wall * 3600, 1),
            "compared_exports_per_hour": round(stats.get("compared_with_reference", 0) / wall * 3600, 1),
            "real_vs_stub": {"real": "jax2onnx, JAX, onnx_ir passes, protobuf serialisation", "stub": "set subclass with permuted iteration inside the optimizer module; seeded __hash__ for ir.Node/ir.Value; injected exceptions in history elements"},
        },
        "assumptions": [
            "a request is compared across interpreters only if two canonical interpreters agree on it (screens testcases whose construction is itself unseeded)",
            "the user's ambient jax_enable_x64 is never changed (a different ambient configuration is a different request)",
        ],
    }
    if harness_pre:
        for h in harness_pre:
            print(f"HARNESS-ERROR property=C14 {h}")
    rc = co.report(PROP, tier, seed, plans=all_plans, results=all_results, evidence=evidence, t0=t0)
    if harness_pre and rc == 0:
        return 2
    return rc

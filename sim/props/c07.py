"""C07 — ONNX function boundaries are transparent; bodies shared only when equal.

Simulated run = one fresh interpreter executing an explicit history over a
pool of live instances: decorate / instantiate / drop / gc / convert
(generated compositions of call sites) / faulted convert.  Differential
oracle after every successful conversion: ORT(decorated) == ORT(reference,
i.e. the same program with every function plugin temporarily absent from
the registry) == eager JAX; every call node has exactly one definition of
equal arity; call sites sharing a definition were generated from equal
objects.
"""
from __future__ import annotations

import gc
import os
import time
from collections import Counter
from typing import Any

import sim.common as cm
from sim.common import EventLog, digest, rng

PROP = "C07"
D = 4

# ---------------------------------------------------------------------------
# worker
# ---------------------------------------------------------------------------


class Pool:
    def __init__(self) -> None:
        self.inst: dict[str, Any] = {}
        self.desc: dict[str, dict] = {}


def _make_instance(spec: dict) -> Any:
    from sim.fixtures import lib

    cls, seed = spec["cls"], int(spec["seed"])
    if cls == "Block":
        return lib.Block(D, D, seed, act=spec.get("act", "gelu"))
    if cls == "UBlock":
        return lib.UBlock(D, seed, flip=bool(spec.get("flip", False)))
    if cls == "Outer":
        return lib.Outer(D, seed)
    if cls == "Inner":
        return lib.Inner(D, seed)
    if cls == "EqxBlock":
        return lib.EqxBlock(D, seed, slope=float(spec.get("slope", 0.1)))
    if cls == "PlainScale":
        return lib.PlainScale(D, seed)
    if cls == "KwBlock":
        return lib.KwBlock(D, seed)
    if cls == "LateBlock":
        return lib.LateBlock(D, seed)
    if cls == "Passthrough":
        return lib.Passthrough(D, seed)
    if cls == "TMean":
        return lib.TMean(D, seed)
    if cls == "UView":
        return lib.UView(seed, mid=float(spec.get("mid", 0.0)))
    if cls == "NamedIdentity":
        return lib.NamedIdentity(D, seed)
    if cls == "BaseAffine":
        return lib.BaseAffine(D, seed)
    if cls == "DerivedAffine":
        return lib.DerivedAffine(D, seed)
    if cls == "RecScale":
        return lib.RecScale(D, seed, depth=int(spec.get("depth", 1)), via_wrap=bool(spec.get("via_wrap", True)))
    raise ValueError(cls)


def _mutate_instance(obj: Any, spec: dict, new_seed: int) -> bool:
    """Update the weights of a live instance IN PLACE to what a fresh instance
    with `new_seed` would hold (the user trains / loads a checkpoint between
    two exports).  Returns False for immutable kinds."""
    import jax.numpy as jnp
    from sim.fixtures.lib import W

    cls = spec["cls"]
    if cls == "Block":
        obj.linear.kernel.value = jnp.asarray(W((D, D), new_seed))
        obj.linear.bias.value = jnp.asarray(W((D,), new_seed + 100))
    elif cls == "UBlock":
        obj.lin.kernel.value = jnp.asarray(W((D, D), new_seed))
        obj.lin.bias.value = jnp.asarray(W((D,), new_seed + 50))
    elif cls in ("KwBlock", "LateBlock"):
        obj.lin.kernel.value = jnp.asarray(W((D, D), new_seed))
    elif cls == "PlainScale":
        obj.w[...] = W((D,), new_seed)
        obj.shift = float(new_seed)
    elif cls == "Inner":
        obj.norm.scale.value = jnp.asarray(1.0 + 0.1 * W((D,), new_seed))
        obj.lin.kernel.value = jnp.asarray(W((D, D), new_seed + 7))
    else:
        return False
    return True


def build_callable(program: dict, pool: Pool, keep: list) -> Any:
    """Return fn(x, **input_params) for the generated composition."""
    import jax.numpy as jnp
    import numpy as np
    from sim.fixtures import lib

    sites = program["sites"]

    def fn(x, **params):
        y = x
        for i, s in enumerate(sites):
            full = y if s.get("chain", True) else x
            inp = full[:1] if s.get("halve") else full
            if s.get("cast32"):
                # same function, same shape, ANOTHER dtype at this call site (double-precision programs only)
                inp = inp.astype(jnp.float32)
            if s.get("const_arg") is not None:
                # the call site passes a compile-time CONSTANT of the same shape/dtype as the data
                # (only generated for programs with concrete shapes, so there is no branching on shapes here)
                inp = jnp.asarray(np.full(tuple(int(d) for d in inp.shape), float(s["const_arg"]), dtype=np.dtype(inp.dtype)))
            t = s["target"]
            kw = dict(s.get("kw") or {})
            if s.get("use_param") and "deterministic" in params:
                kw["deterministic"] = params["deterministic"]
            if t == "fn_sin2":
                r = lib.fn_sin2(inp)
            elif t == "fn_scale":
                r = lib.fn_scale(inp, **kw)
            elif t == "fn_gain":
                r = lib.fn_gain(inp, **kw)
            elif t == "fn_pick":
                r = lib.fn_pick(inp, inp * 0.5 + 1.0, **kw)
            elif t == "fn_shift":
                bsel = s.get("b", "dyn")
                bval = inp[0] * 0.5 if bsel == "dyn" else jnp.asarray(lib.SHIFT_CONSTS[bsel].astype(np.dtype(inp.dtype)))
                r = lib.fn_shift(inp, bval)
            elif t == "op_named":
                # a decorated callable NAMED like an ONNX operator, between two inverse transposes
                callee = lib.Relu if s.get("which", "fn") == "fn" else pool.inst[s["inst"]]
                if s.get("sandwich", True):
                    r = jnp.transpose(callee(jnp.transpose(inp, (1, 0))), (1, 0))
                else:
                    r = callee(inp)
            elif t == "fn_gate":
                names = ["double", "negate"] if s.get("order", "dn") == "dn" else ["negate", "double"]
                r = lib.fn_gate(inp, **{n: params.get(n, False) for n in names})
            elif "temp" in s:
                obj = _make_instance(s["temp"])
                if s.get("keep"):
                    keep.append(obj)
                r = obj(inp, **kw)
            else:
                r = pool.inst[s["inst"]](inp, **kw)
            if s.get("cast32"):
                r = r.astype(full.dtype)
            if s.get("halve"):
                r = r + jnp.zeros_like(full)  # broadcast (1, D) back to the full shape, no Python branching on shapes
            y = jnp.tanh(r) * 0.5 + 0.05 * (i + 1) + (0.0 if s.get("chain", True) else y)
        return y

    return fn


_SPEC_DEFAULTS = {"Block": {"act": "gelu"}, "UBlock": {"flip": False}, "EqxBlock": {"slope": 0.1}, "RecScale": {"depth": 1, "via_wrap": True}, "UView": {"mid": 0.0}}
_KW_DEFAULTS = {"fn_scale": {"factor": 2.0}, "KwBlock": {"scale": 1.0}, "fn_gain": {"gain": 1}, "fn_pick": {"use_a": False}}


def _norm_spec(spec: dict) -> str:
    d = dict(_SPEC_DEFAULTS.get(spec.get("cls", ""), {}))
    d.update(spec)
    return cm.canon(d)


def site_value_key(s: dict, pool: Pool) -> tuple:
    """What a call site computes, by value (used for the sharing oracle);
    constructor / keyword defaults are filled in so that equal objects compare equal."""
    if s["target"] == "op_named":
        obj: Any = "Relu" if s.get("which", "fn") == "fn" else _norm_spec(pool.desc[s["inst"]])
        return ("op_named", obj, "", bool(s.get("halve")), bool(s.get("sandwich", True)))
    if s["target"] in ("fn_sin2", "fn_scale", "fn_gate", "fn_gain", "fn_shift", "fn_pick"):
        obj = s["target"]
    elif "temp" in s:
        obj = _norm_spec(s["temp"])
    else:
        obj = _norm_spec(pool.desc[s["inst"]])
    kw = dict(_KW_DEFAULTS.get(s["target"], {}))
    kw.update(s.get("kw") or {})
    return (s["target"], obj, cm.canon(kw), bool(s.get("halve")), bool(s.get("use_param")), bool(s.get("cast32")))  # (a constant argument is data, not identity: sharing across const/dynamic sites is legitimate)


def _without_function_plugins():
    from contextlib import contextmanager

    from jax2onnx.plugins import plugin_system as ps

    @contextmanager
    def cm_():
        saved = [(k, v) for k, v in ps.PLUGIN_REGISTRY.items() if isinstance(v, ps.FunctionPlugin)]
        order = list(ps.PLUGIN_REGISTRY.items())
        for k, _ in saved:
            ps.PLUGIN_REGISTRY.pop(k)
        try:
            yield
        finally:
            ps.PLUGIN_REGISTRY.clear()
            for k, v in order:
                ps.PLUGIN_REGISTRY[k] = v

    return cm_()


def _inputs(program: dict, seed: int) -> list:
    import numpy as np

    shape = [2 if isinstance(d, str) else d for d in program["shape"]]
    out = []
    for j in range(3):
        rs = np.random.default_rng(cm.sub_seed("c07-in", seed, j) % (2**32))
        out.append((rs.standard_normal(shape) * 0.7).astype(np.float64 if program.get("x64") else np.float32))
    return out


def run(plan: dict) -> dict:
    from sim.runtime import boot, exc_class

    boot(plan)
    import jax
    import numpy as np
    from jax2onnx import onnx_function, to_onnx
    from jax2onnx.plugins import plugin_system as ps
    from sim import faults, oracle
    from sim.fixtures import lib

    log = EventLog()
    viol: list[dict] = []
    stats: Counter = Counter()
    executed: list[dict] = []
    pool = Pool()
    keep: list = []
    body_codes = []
    for f in (ps.FunctionPlugin._lower_and_call, ps.FunctionPlugin._make_patch_fn, ps._activate_full_plugin_worlds_for_body):
        body_codes.extend(faults.nested_codes(faults.code_of(f)))
    inj = faults.Injector(body_codes) if any(o.get("fault") for o in plan["ops"]) else None
    seen_ids: set[int] = set()
    dead_ids: set[int] = set()

    def V(kind: str, detail: Any, op: dict) -> None:
        viol.append({"sig": f"C07|{kind}|prog={digest(op.get('program'))}", "cls": kind, "detail": detail, "replay_ops": list(executed)})

    for idx, op in enumerate(plan["ops"]):
        executed.append(op)
        kind = op["op"]
        if kind == "instantiate":
            obj = _make_instance(op["spec"])
            pool.inst[op["id"]] = obj
            pool.desc[op["id"]] = op["spec"]
            if id(obj) in dead_ids:
                stats["probe_id_of_dead_instance_reused"] += 1
            seen_ids.add(id(obj))
            stats["instantiations"] += 1
            log.add(i=idx, op=kind, id=op["id"], spec=op["spec"])
            continue
        if kind == "drop":
            obj = pool.inst.pop(op["id"], None)
            pool.desc.pop(op["id"], None)
            if obj is not None:
                dead_ids.add(id(obj))
            del obj
            stats["drops"] += 1
            log.add(i=idx, op=kind, id=op["id"])
            continue
        if kind == "gc":
            gc.collect()
            stats["gc_collect"] += 1
            log.add(i=idx, op=kind)
            continue
        if kind == "mutate":
            obj = pool.inst.get(op["id"])
            if obj is not None and _mutate_instance(obj, pool.desc[op["id"]], int(op["seed"])):
                pool.desc[op["id"]] = {**pool.desc[op["id"]], "seed": int(op["seed"])}
                stats["probe_instance_mutated_in_place"] += 1
            log.add(i=idx, op=kind, id=op["id"], seed=op["seed"])
            continue
        if kind == "decorate":
            tgt = getattr(lib, op["target"])
            onnx_function(tgt, unique=bool(op.get("unique", False)))
            stats["decorations"] += 1
            if op.get("unique"):
                stats["probe_redecorated_unique"] += 1
            log.add(i=idx, op=kind, target=op["target"], unique=op.get("unique", False))
            continue
        if kind != "convert":
            raise ValueError(kind)
        program = op["program"]
        if any(("inst" in s and s["inst"] not in pool.inst) for s in program["sites"]):
            log.add(i=idx, op="convert", skipped="instance_missing")
            continue
        keep.clear()
        fn = build_callable(program, pool, keep)
        kw: dict = dict(opset=program.get("opset", 23), enable_double_precision=bool(program.get("x64", False)), model_name="c07")
        if program.get("input_params"):
            kw["input_params"] = dict(program["input_params"])
        spec = [tuple(program["shape"])]
        fault = op.get("fault")
        raised = None
        model = None
        if fault and inj is not None:
            E = exc_class(fault.get("exc", "SimFault"))
            if "region" in fault:
                inj.start(None, lambda: E("sim: injected"), region=tuple(fault["region"]))
            else:
                k = int(fault["k"]) if "k" in fault else int(float(fault["k_frac"]) * int(op.get("n_hint", 12000)))
                inj.start(k, lambda: E("sim: injected"))
        try:
            model = to_onnx(fn, spec, **kw)
        except BaseException as e:  # noqa: BLE001
            raised = e
        finally:
            if fault and inj is not None:
                inj.stop()
        stats["conversions"] += 1
        if fault:
            fired = bool(inj and inj.fired)
            stats["faulted_conversions"] += 1
            if fired:
                stats["fault_fired_in_function_body_path"] += 1
            log.add(i=idx, op="convert", fault=True, fired=fired, raised=type(raised).__name__ if raised else None)
            if ps._IN_FUNCTION_BUILD.get():
                stats["probe_in_function_build_left_set"] += 1
            continue
        if raised is not None:
            stats["conversions_raised"] += 1
            stats["raised:" + type(raised).__name__] += 1
            log.add(i=idx, op="convert", raised=type(raised).__name__, msg=str(raised)[:80])
            continue
        stats["conversions_ok"] += 1
        # ---- structural oracle ----
        ok, msg, info = oracle.function_structure(model)
        if not ok:
            V("structure", msg, op)
        n_fn = len(model.functions)
        if n_fn:
            stats["exports_with_functions"] += 1
        # ---- reference (undecorated export of the same objects) ----
        ref = None
        try:
            with _without_function_plugins():
                ref = to_onnx(fn, spec, **kw)
        except BaseException as e:  # noqa: BLE001
            stats["reference_failed"] += 1
            log.add(i=idx, op="convert", note="reference_failed", exc=type(e).__name__)
        if ref is not None and len(ref.functions) != 0:
            stats["reference_still_has_functions"] += 1
            ref = None
        # ---- numeric differential ----
        params0 = program.get("input_params") or {}
        rtol, atol = (1e-6, 1e-8) if program.get("x64") else (2e-4, 2e-5)
        verdict: dict = {}
        # runtime parameters are model inputs: evaluate other values than the ones given at conversion
        param_sets = [params0]
        if "double" in params0:
            param_sets = [{**params0, "double": a, "negate": b} for a in (False, True) for b in (False, True)]
            stats["probe_runtime_flag_programs"] += 1
        cases = [(xin, ps_) for xin in _inputs(program, plan.get("seed", 0)) for ps_ in param_sets]
        refs_by_params: dict[str, Any] = {}
        if len(param_sets) > 1:
            cases = cases[: 2 * len(param_sets)]
        for j, (xin, params) in enumerate(cases):
            try:
                got = oracle.ort_run(model, [xin], params)
            except Exception as e:
                # a model the runtime refuses is a function-boundary matter only if the undecorated export of
                # the same program runs (otherwise it is C03/C09's: e.g. double-precision constant typing)
                ref_runs = False
                if ref is not None:
                    try:
                        oracle.ort_run(ref, [xin], params0)
                        ref_runs = True
                    except Exception:
                        ref_runs = False
                if ref_runs:
                    V("decorated_model_unrunnable", f"{type(e).__name__}: {str(e)[:200]}", op)
                else:
                    stats["probe_both_exports_unrunnable_or_no_reference"] += 1
                break
            try:
                jx = oracle.jax_run(fn, [xin], params, bool(program.get("x64")))
            except Exception as e:
                stats["jax_eager_failed"] += 1
                jx = None
            literal_params = params == params0
            # the undecorated export bakes input_params it never hands to a function, so the
            # reference for other runtime values is the undecorated export converted under THOSE values
            ref_p = ref
            if ref is not None and not literal_params:
                pk = cm.canon(params)
                if pk not in refs_by_params:
                    try:
                        with _without_function_plugins():
                            rp_ = to_onnx(fn, spec, **{**kw, "input_params": dict(params)})
                        refs_by_params[pk] = rp_ if len(rp_.functions) == 0 else None
                        stats["reference_exports_for_other_runtime_values"] += 1
                    except BaseException:  # noqa: BLE001
                        refs_by_params[pk] = None
                ref_p = refs_by_params[pk]
            verdict.pop("ref", None)
            if ref_p is not None:
                try:
                    rf = oracle.ort_run(ref_p, [xin], params)
                    okr, msgr = oracle.compare(rf, got, rtol=rtol, atol=atol)
                    stats["compared_with_reference"] += 1
                    verdict["ref"] = okr
                    if not okr:
                        V("differs_from_undecorated", {"msg": msgr, "sites": program["sites"]}, op)
                        break
                except Exception as e:
                    stats["reference_unrunnable"] += 1
            if jx is not None:
                okj, msgj = oracle.compare(jx, got, rtol=max(rtol, 1e-3 if not program.get("x64") else rtol), atol=max(atol, 1e-5 if not program.get("x64") else atol))
                stats["compared_with_jax"] += 1
                verdict["jax"] = okj
                if not okj:
                    if verdict.get("ref") is True:
                        # decorated == undecorated, both differ from JAX: not a function-boundary matter (C01)
                        stats["probe_both_exports_differ_from_jax"] += 1
                    else:
                        # no undecorated reference for this case: eager JAX is the only oracle.  Confusing two
                        # instances / bodies changes outputs by O(0.1..1); float32 LayerNorm/gelu noise between
                        # ORT and XLA is O(1e-4) and is C01's matter, so the gate here is deliberately coarse.
                        okl, msgl = oracle.compare(jx, got, rtol=1e-2, atol=2e-3) if not program.get("x64") else (False, msgj)
                        if okl:
                            stats["probe_jax_only_case_within_coarse_tolerance"] += 1
                        else:
                            V("differs_from_jax", {"msg": msgl, "sites": program["sites"], "reference_available": ref is not None}, op)
                            break
        # ---- sharing soundness ----
        calls = [n for n in model.graph.node if (n.domain, n.op_type) in {(f.domain, f.name) for f in model.functions}]
        sites = program["sites"]
        if len(calls) == len(sites):
            stats["sharing_checked"] += 1
            by_def: dict[tuple, list[int]] = {}
            for i_, n in enumerate(calls):
                by_def.setdefault((n.domain, n.op_type), []).append(i_)
            for key_, idxs in by_def.items():
                if len(idxs) > 1:
                    stats["probe_def_shared_between_call_sites"] += 1
                    keys = {site_value_key(sites[i_], pool) for i_ in idxs}
                    if len(keys) > 1:
                        V("shared_definition_for_unequal_sites", {"def": list(key_), "sites": [sites[i_] for i_ in idxs]}, op)
            vk = [site_value_key(s, pool) for s in sites]
            if len(set(vk)) < len(vk) and len(by_def) == len(calls):
                stats["probe_equal_sites_not_shared"] += 1
        else:
            stats["sharing_not_mapped"] += 1
        if any("temp" in s for s in sites):
            stats["probe_temp_instance_programs_exported"] += 1
        if any(s.get("inst") in pool.desc and pool.desc[s["inst"]].get("cls") == "RecScale" and int(pool.desc[s["inst"]].get("depth", 1)) > 0 for s in sites):
            stats["probe_reentrant_nesting_programs_exported"] += 1
        log.add(i=idx, op="convert", n_fn=n_fn, n_calls=len(calls), verdict=verdict, digest=oracle.proto_digest(model))
        if viol and plan.get("stop_on_violation", True):
            break
    return {
        "violations": viol,
        "stats": dict(stats),
        "log_digest": log.digest(),
        "history_sig": digest(plan["ops"]),
        "samples": [[o for o in plan["ops"] if o["op"] == "convert"][:2]],
    }


# ---------------------------------------------------------------------------
# coordinator: history generator
# ---------------------------------------------------------------------------

CLASSES = ["Block", "UBlock", "EqxBlock", "PlainScale", "KwBlock", "Outer", "Inner", "RecScale", "BaseAffine", "DerivedAffine", "NamedIdentity", "UView", "Passthrough", "TMean"]


def gen_history(seed: int, run: int, n_ops: int) -> list[dict]:
    r = rng("c07-history", seed, run)
    ops: list[dict] = []
    live: dict[str, dict] = {}
    counter = [0]
    late = False

    def new_inst(cls: str | None = None, like: str | None = None) -> str:
        counter[0] += 1
        iid = f"i{counter[0]}"
        if like is not None:
            spec = dict(live[like])
            u = r.random()
            if u < 0.4:
                pass  # equal twin
            elif u < 0.7:
                spec["seed"] = spec["seed"] + r.choice([1, 2, 3])
            else:
                if spec["cls"] == "Block":
                    spec["act"] = r.choice(["gelu", "relu", "tanh"])
                elif spec["cls"] == "UBlock":
                    spec["flip"] = not spec.get("flip", False)
                elif spec["cls"] == "EqxBlock":
                    spec["slope"] = r.choice([0.1, 0.2, 0.5])
                elif spec["cls"] == "RecScale":
                    spec["depth"] = r.choice([0, 1, 2])
                elif spec["cls"] == "UView":
                    spec["mid"] = r.choice([0.0, 0.5, 1.0, 2.0])
                else:
                    spec["seed"] = spec["seed"] + 1
        else:
            c = cls or r.choice(CLASSES + (["LateBlock"] if late else []))
            spec = {"cls": c, "seed": r.randrange(1, 7)}
            if c == "RecScale":
                spec["depth"] = r.choice([0, 1, 1, 2])
                spec["via_wrap"] = r.random() < 0.7
        live[iid] = spec
        ops.append({"op": "instantiate", "id": iid, "spec": spec})
        return iid

    for c in r.sample(CLASSES, 4):
        new_inst(c)
    while len(ops) < n_ops:
        u = r.random()
        if u < 0.18 and len(live) < 8:
            if live and r.random() < 0.6:
                new_inst(like=r.choice(sorted(live)))
            else:
                new_inst()
        elif u < 0.24 and len(live) > 3:
            iid = r.choice(sorted(live))
            live.pop(iid)
            ops.append({"op": "drop", "id": iid})
        elif u < 0.28:
            ops.append({"op": "gc"})
        elif u < 0.34 and live:
            iid = r.choice(sorted(live))
            if live[iid]["cls"] in ("Block", "UBlock", "KwBlock", "LateBlock", "PlainScale", "Inner"):
                # in-place weight update; often to the value another live instance (or its own past) holds
                others = [v["seed"] for k, v in live.items() if k != iid and v["cls"] == live[iid]["cls"]]
                new_seed = r.choice(others) if others and r.random() < 0.6 else live[iid]["seed"] + r.choice([1, 2])
                live[iid] = {**live[iid], "seed": new_seed}
                ops.append({"op": "mutate", "id": iid, "seed": new_seed})
        elif u < 0.37 and not late:
            late = True
            ops.append({"op": "decorate", "target": "LateBlock", "unique": r.random() < 0.3})
        elif u < 0.40:
            ops.append({"op": "decorate", "target": r.choice(["Block", "EqxBlock", "PlainScale"]), "unique": True})
        elif u < 0.43 and live and len(live) < 8:
            # scenario: two instances of one class that differ in exactly ONE respect (another seed, or the
            # class's own distinguishing detail: activation, flag, slope, depth, one element in the middle of a
            # large parameter), exported together - they must not share a body
            a = r.choice(sorted(live))
            b = new_inst(like=a)
            spec = dict(live[a])
            cls_ = spec["cls"]
            if cls_ == "Block":
                spec["act"] = r.choice([x_ for x_ in ("gelu", "relu", "tanh") if x_ != spec.get("act", "gelu")])
            elif cls_ == "UBlock":
                spec["flip"] = not spec.get("flip", False)
            elif cls_ == "EqxBlock":
                spec["slope"] = r.choice([x_ for x_ in (0.1, 0.2, 0.5) if x_ != spec.get("slope", 0.1)])
            elif cls_ == "RecScale":
                spec["depth"] = (int(spec.get("depth", 1)) + 1) % 3
            elif cls_ == "UView":
                spec["mid"] = r.choice([x_ for x_ in (0.0, 0.5, 1.0, 2.0) if x_ != spec.get("mid", 0.0)])
            else:
                spec["seed"] = spec["seed"] + r.choice([1, 2, 3])
            live[b] = spec
            ops[-1] = {"op": "instantiate", "id": b, "spec": spec}
            sa = {"target": cls_, "inst": a}
            sb = {"target": cls_, "inst": b}
            if cls_ == "NamedIdentity":
                sa = {"target": "op_named", "which": "inst", "inst": a, "sandwich": False}
                sb = {"target": "op_named", "which": "inst", "inst": b, "sandwich": False}
            if cls_ == "KwBlock":
                sa["kw"] = {"scale": 2.0}
                sb["kw"] = {"scale": 2.0}
            ops.append({"op": "convert", "program": {"sites": [sa, sb] if r.random() < 0.5 else [sb, sa], "shape": [2, D], "opset": 23}})
        elif u < 0.49 and live:
            # scenario: export a pair, update one member in place, export the pair again
            cands = [k for k, v in live.items() if v["cls"] in ("Block", "UBlock", "KwBlock", "PlainScale")]
            if cands and len(live) < 8:
                a = r.choice(cands)
                b = new_inst(like=a) if r.random() < 0.7 else a
                if b != a and r.random() < 0.7:
                    live[b] = dict(live[a])  # exact twin
                    ops[-1] = {"op": "instantiate", "id": b, "spec": live[b]}

                def pair_prog() -> dict:
                    sa: dict = {"target": live[a]["cls"], "inst": a}
                    sb: dict = {"target": live[b]["cls"], "inst": b}
                    if live[a]["cls"] == "KwBlock":
                        sa["kw"] = {"scale": 2.0}
                        sb["kw"] = {"scale": 2.0}
                    sites = [sa, sb] if r.random() < 0.5 else [sb, sa]
                    return {"sites": sites, "shape": [2, D], "opset": 23}

                ops.append({"op": "convert", "program": pair_prog()})
                victim = r.choice([a, b])
                new_seed = live[victim]["seed"] + r.choice([1, 2, 3])
                live[victim] = {**live[victim], "seed": new_seed}
                ops.append({"op": "mutate", "id": victim, "seed": new_seed})
                ops.append({"op": "convert", "program": pair_prog()})
        else:
            n_sites = r.choice([1, 2, 2, 3, 3, 4, 5, 6])
            sites: list[dict] = []
            ids = sorted(live)
            pure_fn_only = r.random() < 0.18
            for _ in range(n_sites):
                v = r.random()
                if pure_fn_only or v < 0.28:
                    w_ = r.random()
                    if w_ < 0.2:
                        s: dict = {"target": "fn_sin2"}
                    elif w_ < 0.3:
                        s = {"target": "op_named", "which": "fn", "sandwich": r.random() < 0.8}
                    elif w_ < 0.45:
                        # a binary target whose second argument is a constant at some sites and data at others
                        s = {"target": "fn_shift", "b": r.choice(["c1", "c2", "dyn"])}
                        if sites and r.random() < 0.6:
                            sites.append(dict(s, b=r.choice(["c1", "c2", "dyn"])))
                    elif w_ < 0.52:
                        # two tensor operands, one of them unread under a static flag
                        s = {"target": "fn_pick", "kw": {"use_a": r.random() < 0.4} if r.random() < 0.8 else {}}
                    elif w_ < 0.62:
                        # keyword values that are equal (and hash-equal) but of different type
                        s = {"target": "fn_gain", "kw": {"gain": r.choice([1, 1.0, True, 2, 2.0])} if r.random() < 0.8 else {}}
                    elif w_ < 0.75:
                        s = {"target": "fn_gate", "order": r.choice(["dn", "nd"])}
                    else:
                        s = {"target": "fn_scale", "kw": {"factor": r.choice([2.0, 3.0, 0.5])} if r.random() < 0.7 else {}}
                elif v < 0.38:
                    s = {"target": r.choice(["PlainScale", "EqxBlock"]), "temp": {"cls": "", "seed": r.randrange(1, 5)}, "keep": r.random() < 0.6}
                    s["temp"]["cls"] = s["target"]
                else:
                    if sites and r.random() < 0.35 and any("inst" in q for q in sites):
                        iid = r.choice([q["inst"] for q in sites if "inst" in q])
                    else:
                        iid = r.choice(ids)
                    s = {"target": live[iid]["cls"], "inst": iid}
                    if live[iid]["cls"] == "NamedIdentity":
                        s = {"target": "op_named", "which": "inst", "inst": iid, "sandwich": r.random() < 0.7}
                    if live[iid]["cls"] == "KwBlock":
                        s["kw"] = {"scale": r.choice([1.0, 2.0, 3.0])}
                        if r.random() < 0.3:
                            s["use_param"] = True
                if r.random() < 0.2:
                    s["chain"] = False
                if r.random() < 0.12:
                    s["halve"] = True
                sites.append(s)
            program: dict = {"sites": sites, "shape": [r.choice([2, 2, "B", 3]), D], "opset": r.choice([23, 23, 21])}
            if program["shape"][0] != "B" and r.random() < 0.3:
                # one call site passes a compile-time constant where its siblings pass data (same key)
                sites[r.randrange(len(sites))]["const_arg"] = r.choice([0.3, -0.7, 1.5])
            if pure_fn_only and r.random() < 0.5:
                program["x64"] = True
                # one or two call sites see float32 data while their siblings see float64
                for q_ in r.sample(sites, min(len(sites), r.choice([1, 1, 2]))):
                    if q_["target"] in ("fn_sin2", "fn_scale", "fn_shift", "fn_pick"):
                        q_["cast32"] = True
            if any(q.get("use_param") for q in sites):
                program["input_params"] = {"deterministic": True}
            if any(q["target"] == "fn_gate" for q in sites):
                program.setdefault("input_params", {}).update({"double": r.random() < 0.5, "negate": r.random() < 0.5})
                program["x64"] = False
                for q_ in sites:
                    q_.pop("cast32", None)  # single-precision program: the cast would be a no-op, the sites are equal
            op: dict = {"op": "convert", "program": program}
            if r.random() < 0.12:
                if r.random() < 0.5:
                    op["fault"] = {"k_frac": round(r.random(), 6), "exc": r.choice(["SimFault", "SimInterrupt"])}
                else:
                    op["fault"] = {"region": [r.choice(["_lower_and_call", "wrapped", "_activate_full_plugin_worlds_for_body", "_wrapped"]), r.randrange(0, 60)], "exc": r.choice(["SimFault", "SimInterrupt"])}
            ops.append(op)
    return ops


def main(tier: str) -> int:
    from sim import coordinator as co

    t0 = time.time()
    seed = cm.verif_seed()
    budget = float(os.environ.get("VERIF_BUDGET_S", "1500" if tier == "thorough" else "420"))
    print(f"[C07] VERIF_SEED={seed} tier={tier} budget={budget}s repo={co.repo_dir()}")
    n_runs = int(os.environ.get("VERIF_C07_RUNS", "256" if tier == "thorough" else "32"))
    n_ops = 80 if tier == "thorough" else 45
    plans = [{"property": PROP, "hashseed": 0, "seed": seed, "ops": gen_history(seed, i, n_ops), "run": i} for i in range(n_runs)]
    results = co.run_plans(plans, timeout=max(900.0, budget), deadline=t0 + budget)
    stats: Counter = Counter()
    sigs = set()
    samples = []
    for r in results:
        if not r:
            continue
        stats.update(r.get("stats", {}))
        if r.get("history_sig"):
            sigs.add(r["history_sig"])
        if len(samples) < 3:
            samples.extend(r.get("samples", []))
    wall = max(time.time() - t0, 1e-6)
    probes = {k: v for k, v in stats.items() if k.startswith("probe_") or k.startswith("raised:") or k in ("conversions", "conversions_ok", "conversions_raised", "exports_with_functions", "compared_with_reference", "compared_with_jax", "sharing_checked", "sharing_not_mapped", "reference_failed", "reference_still_has_functions", "faulted_conversions", "decorations", "instantiations", "drops", "gc_collect", "jax_eager_failed")}
    warnings = [f"probe {p} stayed at zero" for p in ("probe_def_shared_between_call_sites", "probe_temp_instance_programs_exported", "probe_redecorated_unique", "probe_instance_mutated_in_place", "fault_fired_in_function_body_path", "compared_with_reference") if not stats.get(p)]
    evidence = {
        "property_id": PROP,
        "level": "exploration",
        "coverage": {
            "evaluations": stats.get("conversions_ok", 0),
            "distinct_nontrivial": len(sigs),
            "rule": "evaluation = one successful conversion of a generated composition of 1-6 call sites followed by the differential oracle (ORT decorated vs ORT undecorated-reference vs eager JAX on three seeded inputs, call/definition arity, sharing soundness); distinct non-trivial = distinct simulated histories (sha256 of the explicit operation list: instantiate/drop/gc/decorate/convert/faulted convert), each containing >= 20 generated programs",
            "samples": samples[:3] or [{"note": "none"}],
            "exhaustive": False,
            "histories": {"runs": len([r for r in results if r]), "distinct": len(sigs), "ops_each": n_ops},
            "faults_fired_by_kind": {"function_body_path_SimFault_or_SimInterrupt": stats.get("fault_fired_in_function_body_path", 0)},
            "probes": probes,
            "probe_warnings": warnings,
            "simulated_time": "n/a (no timers); logical steps = operations",
            "runs_per_hour": round(len([r for r in results if r]) / wall * 3600, 1),
            "conversions_per_hour": round(stats.get("conversions", 0) / wall * 3600, 1),
            "real_vs_stub": {"real": "jax2onnx, JAX, Flax NNX, Equinox, onnxruntime", "stub": "only injected exceptions in faulted history elements; the reference export is the real converter with the function plugins temporarily removed from its registry"},
        },
        "assumptions": [
            "the undecorated reference is the same callable exported with every FunctionPlugin temporarily absent from PLUGIN_REGISTRY",
            "not demanded: number of definitions, domain names, that unique=True actually dedups, that temporaries export at all (a loud failure is fine)",
        ],
    }
    return co.report(PROP, tier, seed, plans=plans, results=results, evidence=evidence, t0=t0)

"""Coordinator: expands seeds into explicit plans (done by the property
modules), runs each plan in a fresh interpreter, confirms and minimises
violations, applies known_findings.json, writes evidence.

One plan = one fresh interpreter = one exactly repeatable simulated run.
"""
from __future__ import annotations

import json
import os
import re
import shutil
import subprocess
import sys
import time
from typing import Any, Callable

from sim.common import (
    EXIT_HARNESS,
    EXIT_OK,
    EXIT_VIOLATION,
    PYTHON,
    VERIF_DIR,
    canon,
    digest,
    read_json,
    repo_dir,
    write_json,
)

JOBS = int(os.environ.get("VERIF_JOBS", "16"))


def workdir() -> str:
    base = os.environ.get("VERIF_WORK") or (
        "/dev/shm" if os.path.isdir("/dev/shm") and os.access("/dev/shm", os.W_OK) else os.path.join(VERIF_DIR, "work")
    )
    d = os.path.join(base, f"j2o-verif-{os.getpid()}")
    os.makedirs(d, exist_ok=True)
    return d


def cleanup_workdir() -> None:
    base = os.environ.get("VERIF_WORK") or (
        "/dev/shm" if os.path.isdir("/dev/shm") and os.access("/dev/shm", os.W_OK) else os.path.join(VERIF_DIR, "work")
    )
    shutil.rmtree(os.path.join(base, f"j2o-verif-{os.getpid()}"), ignore_errors=True)


def _env(plan: dict) -> dict:
    env = dict(os.environ)
    env["PYTHONHASHSEED"] = str(plan.get("hashseed", 0))
    env["PYTHONPATH"] = f"{VERIF_DIR}:{repo_dir()}"
    env["PYTHONDONTWRITEBYTECODE"] = "1"
    env["JAX_PLATFORMS"] = "cpu"
    env["OMP_NUM_THREADS"] = "1"
    env["XLA_FLAGS"] = env.get("XLA_FLAGS", "") + " --xla_force_host_platform_device_count=1"
    env.pop("JAX2ONNX_STRICT_OPTIMIZER_FAILURES", None)
    env.pop("JAX_ENABLE_X64", None)
    for k, v in (plan.get("env") or {}).items():
        env[k] = str(v)
    return env


class Proc:
    def __init__(self, plan: dict, idx: int, wd: str, timeout: float) -> None:
        self.plan = plan
        self.idx = idx
        self.plan_path = os.path.join(wd, f"plan-{idx}.json")
        self.out_path = os.path.join(wd, f"out-{idx}.json")
        self.err_path = os.path.join(wd, f"err-{idx}.txt")
        write_json(self.plan_path, plan)
        if os.path.exists(self.out_path):
            os.remove(self.out_path)
        self.t0 = time.time()
        self.timeout = timeout
        self.errf = open(self.err_path, "wb")
        self.p = subprocess.Popen(
            [PYTHON, "-X", "faulthandler", "-m", "sim.worker", self.plan_path, self.out_path],
            cwd=wd,
            env=_env(plan),
            stdout=self.errf,
            stderr=subprocess.STDOUT,
        )

    def poll(self) -> dict | None:
        rc = self.p.poll()
        if rc is None:
            if time.time() - self.t0 > self.timeout:
                self.p.kill()
                self.p.wait()
                self.errf.close()
                return {"status": "timeout", "violations": [], "stats": {}, "wall": time.time() - self.t0, "stderr": self._tail()}
            return None
        self.errf.close()
        wall = time.time() - self.t0
        if os.path.exists(self.out_path):
            try:
                res = read_json(self.out_path)
                res["wall"] = wall
                res["rc"] = rc
                if res.get("status") not in ("ok", "violation"):
                    res["stderr"] = self._tail()
                return res
            except Exception as exc:  # torn output
                return {"status": "harness_error", "error": f"bad out.json: {exc}", "violations": [], "stats": {}, "wall": wall, "stderr": self._tail()}
        return {"status": "harness_error", "error": f"worker exited rc={rc} without result", "violations": [], "stats": {}, "wall": wall, "stderr": self._tail()}

    def _tail(self) -> str:
        try:
            with open(self.err_path, "rb") as f:
                data = f.read()
            return data[-3000:].decode("utf-8", "replace")
        except Exception:
            return ""


def run_plans(
    plans: list[dict],
    *,
    timeout: float = 900.0,
    jobs: int | None = None,
    deadline: float | None = None,
    on_result: Callable[[int, dict], None] | None = None,
    retry: bool = True,
) -> list[dict | None]:
    """Run every plan in its own interpreter, at most `jobs` at a time.
    Results are returned in plan order (None = not started because the
    deadline passed)."""
    jobs = jobs or JOBS
    wd = workdir()
    results: list[dict | None] = [None] * len(plans)
    pending = list(range(len(plans)))
    running: list[Proc] = []
    retried: set[int] = set()
    serial = 0
    while pending or running:
        while pending and len(running) < jobs:
            if deadline is not None and time.time() > deadline:
                pending.clear()
                break
            i = pending.pop(0)
            serial += 1
            pr = Proc(plans[i], serial, wd, timeout)
            pr.plan_index = i  # type: ignore[attr-defined]
            running.append(pr)
        still: list[Proc] = []
        for pr in running:
            res = pr.poll()
            if res is None:
                still.append(pr)
                continue
            i = pr.plan_index  # type: ignore[attr-defined]
            if res["status"] in ("harness_error", "timeout") and retry and i not in retried:
                retried.add(i)
                pending.insert(0, i)
                continue
            results[i] = res
            if on_result:
                on_result(i, res)
            for pth in (pr.plan_path, pr.out_path, pr.err_path):
                try:
                    os.remove(pth)
                except OSError:
                    pass
        running = still
        if running:
            time.sleep(0.05)
    return results


# ---------------------------------------------------------------------------
# known findings
# ---------------------------------------------------------------------------


def load_known() -> list[dict]:
    p = os.path.join(VERIF_DIR, "known_findings.json")
    if not os.path.exists(p):
        return []
    data = read_json(p)
    return list(data.get("findings", []))


def match_known(prop: str, sig: str, known: list[dict]) -> dict | None:
    for k in known:
        if k.get("property") != prop or k.get("status", "known") != "known":
            continue
        pat = k.get("pattern")
        if pat and re.fullmatch(pat, sig):
            return k
    return None


# ---------------------------------------------------------------------------
# confirmation + minimisation
# ---------------------------------------------------------------------------


def replay_plan(plan: dict, timeout: float = 900.0) -> dict:
    res = run_plans([plan], timeout=timeout, jobs=1)[0]
    assert res is not None
    return res


def has_sig(res: dict | None, sig: str) -> bool:
    if not res:
        return False
    return any(v.get("sig") == sig for v in res.get("violations", []))


def minimise(plan: dict, sig: str, *, budget_s: float = 300.0, timeout: float = 600.0) -> tuple[dict, int]:
    """ddmin over plan['ops']; every candidate runs in a fresh interpreter,
    up to JOBS candidates in parallel.  Returns (smallest reproducing plan,
    candidates tried)."""
    t_end = time.time() + budget_s
    ops = list(plan["ops"])
    tried = 0
    n = 2
    while len(ops) >= 2 and time.time() < t_end:
        chunk = max(1, len(ops) // n)
        cands: list[list] = []
        for s in range(0, len(ops), chunk):
            c = ops[:s] + ops[s + chunk :]
            if c and len(c) < len(ops):
                cands.append(c)
        if not cands:
            break
        plans = [{**plan, "ops": c} for c in cands]
        results = run_plans(plans, timeout=timeout, deadline=t_end, retry=False)
        tried += len(plans)
        hit = None
        for c, r in zip(cands, results):
            if has_sig(r, sig):
                if hit is None or len(c) < len(hit):
                    hit = c
        if hit is not None:
            ops = hit
            n = max(n - 1, 2)
        else:
            if chunk == 1:
                break
            n = min(len(ops), n * 2)
    return {**plan, "ops": ops}, tried


def report(
    prop: str,
    tier: str,
    seed: int,
    *,
    plans: list[dict],
    results: list[dict | None],
    evidence: dict,
    t0: float,
    minimise_budget: float = 240.0,
    replay_timeout: float = 900.0,
) -> int:
    """Common tail of every check: classify, confirm, minimise, apply known
    findings, write evidence, print verdict lines, return exit code."""
    known = load_known()
    harness: list[str] = []
    candidates: dict[str, tuple[dict, dict]] = {}  # sig -> (violation, plan)
    n_viol_raw = 0
    for plan, res in zip(plans, results):
        if res is None:
            continue
        if res["status"] in ("harness_error", "timeout"):
            harness.append(f"{res['status']}: {res.get('error', '')} :: {res.get('stderr', '')[-1500:]}")
            continue
        for v in res.get("violations", []):
            n_viol_raw += 1
            if v["sig"] not in candidates:
                rp = dict(plan)
                if v.get("replay_ops") is not None:
                    rp["ops"] = v["replay_ops"]
                candidates[v["sig"]] = (v, rp)

    exit_code = EXIT_OK
    lines: list[str] = []
    confirmed = 0
    known_hit: dict[str, int] = {}
    replay_dir = os.environ.get("VERIF_REPLAY_DIR") or os.path.join(VERIF_DIR, "replays")
    evidence_dir = os.environ.get("VERIF_EVIDENCE_DIR") or os.path.join(VERIF_DIR, "evidence")
    os.makedirs(replay_dir, exist_ok=True)
    os.makedirs(evidence_dir, exist_ok=True)
    per_cls: dict[str, int] = {}
    max_per_cls = int(os.environ.get("VERIF_CONFIRM_PER_CLASS", "1"))
    max_total = int(os.environ.get("VERIF_CONFIRM_TOTAL", "4"))
    t_min_end = time.time() + float(os.environ.get("VERIF_MINIMISE_TOTAL_S", str(minimise_budget)))
    skipped_same = 0
    # shortest replay first: cheapest to confirm and closest to minimal
    for sig, (v, rp) in sorted(candidates.items(), key=lambda kv: (len(kv[1][1].get("ops", [])), kv[0])):
        k = match_known(prop, sig, known)
        if k is not None:
            known_hit[k["id"]] = known_hit.get(k["id"], 0) + 1
            continue
        cls = v.get("cls", sig)
        per_cls[cls] = per_cls.get(cls, 0) + 1
        if per_cls[cls] > max_per_cls or confirmed >= max_total:
            skipped_same += 1
            continue  # same violation class already confirmed/reported, or enough reported
        # confirmation in a fresh interpreter
        res = replay_plan(rp, timeout=replay_timeout)
        if not has_sig(res, sig) and v.get("replay_ops_with_history") is not None:
            # not reproducible from the operation alone: the violation depends on what the interpreter
            # did before (history); replay the operations executed so far in that interpreter as well
            rp = dict(rp)
            rp["ops"] = v["replay_ops_with_history"]
            res = replay_plan(rp, timeout=replay_timeout)
        if not has_sig(res, sig):
            # try the full original plan (history dependent?)
            harness.append(f"unconfirmed violation {sig}: {v.get('detail', '')} (replay status {res.get('status')}, sigs {[x.get('sig') for x in res.get('violations', [])][:3]})")
            continue
        confirmed += 1
        left = t_min_end - time.time()
        small, tried = minimise(rp, sig, budget_s=left, timeout=replay_timeout) if (len(rp.get("ops", [])) > 1 and left > 20) else (rp, 0)
        path = os.path.join(replay_dir, f"{prop}-{seed}-{digest(sig)}.json")
        write_json(path, {"property": prop, "expected_sig": sig, "detail": v.get("detail"), "plan": small, "minimise_candidates": tried, "seed": seed})
        lines.append(f"VIOLATION property={prop} replay={path}")
        lines.append(f"  sig={sig} detail={str(v.get('detail'))[:400]}")
        exit_code = EXIT_VIOLATION
    for k in known:
        if k.get("property") == prop and k.get("status", "known") == "known" and k["id"] in known_hit:
            lines.append(f"KNOWN-FINDING: property={prop} {k['what']} (id={k['id']}, seen {known_hit[k['id']]}x)")
    if harness and exit_code == EXIT_OK:
        exit_code = EXIT_HARNESS
    for h in harness[:10]:
        lines.append(f"HARNESS-ERROR property={prop} {h[:2000]}")

    wall = time.time() - t0
    ev = dict(evidence)
    ev.setdefault("property_id", prop)
    ev["tier"] = tier
    ev["seed"] = seed
    ev["wall_s"] = round(wall, 2)
    ev["violations"] = confirmed
    cov = ev.setdefault("coverage", {})
    cov["raw_violation_reports"] = n_viol_raw
    cov["violation_classes_seen"] = per_cls
    cov["violation_reports_not_individually_confirmed"] = skipped_same
    cov["known_findings_seen"] = known_hit
    cov["harness_errors"] = len(harness)
    cov["interpreters"] = sum(1 for r in results if r is not None)
    cov["interpreters_not_started_deadline"] = sum(1 for r in results if r is None)
    write_json(os.path.join(evidence_dir, f"{prop}.json"), ev)
    for ln in lines:
        print(ln)
    print(f"[{prop}] tier={tier} seed={seed} interpreters={cov['interpreters']} wall={wall:.1f}s confirmed_violations={confirmed} known={sum(known_hit.values())} harness_errors={len(harness)} -> exit {exit_code}")
    sys.stdout.flush()
    cleanup_workdir()
    return exit_code


def replay_file(path: str) -> int:
    rec = read_json(path)
    res = replay_plan(rec["plan"])
    ok = has_sig(res, rec["expected_sig"])
    print(f"replay {path}: status={res.get('status')} log_digest={res.get('log_digest')} reproduced={ok}")
    for v in res.get("violations", []):
        print(f"  sig={v.get('sig')} detail={str(v.get('detail'))[:400]}")
    if ok:
        print(f"VIOLATION property={rec['property']} replay={path}")
        cleanup_workdir()
        return EXIT_VIOLATION
    cleanup_workdir()
    if res.get("status") in ("harness_error", "timeout"):
        print(f"HARNESS-ERROR {res.get('error')} {res.get('stderr', '')[-1500:]}")
        return EXIT_HARNESS
    return EXIT_OK

"""Synchronous fault injector built on sys.monitoring (Python 3.12).

A fault is: *a call made by converter code raises instead of running*.  CALL
events are enabled only on the code objects of the functions that manage
state which must be restored (the patch stack and its callers).  A fault
site is the k-th eligible CALL event inside one to_onnx call.

Never faulted (static filters):
  * calls lexically inside a `finally:` suite or an `except` handler (cleanup
    code: no Python code can restore state if its own restore step is shot);
  * the implicit __exit__/__aexit__/close call of a `with` statement;
  * total container operations (list.append, isinstance, len, ...).
"""
from __future__ import annotations

import ast
import builtins
import inspect
import sys
import textwrap
import types
from typing import Any, Callable, Iterable

mon = sys.monitoring
_TOOL_ID: int | None = None

_DENY_BUILTINS = {
    builtins.isinstance,
    builtins.issubclass,
    builtins.len,
    builtins.reversed,
    builtins.tuple,
    builtins.list,
    builtins.dict,
    builtins.set,
    builtins.frozenset,
    builtins.bool,
    builtins.id,
    builtins.callable,
    builtins.enumerate,
    builtins.zip,
    builtins.iter,
    builtins.range,
    builtins.type,
    builtins.max,
    builtins.min,
    builtins.sorted,
    builtins.any,
    builtins.all,
}
_DENY_METHOD_TYPES = (list, dict, set, tuple, str, frozenset)
_DENY_NAMES = {"__exit__", "__aexit__", "close"}


def _tool_id() -> int:
    global _TOOL_ID
    if _TOOL_ID is not None:
        return _TOOL_ID
    for tid in (3, 4, 2, 1, 0, 5):
        if mon.get_tool(tid) is None:
            mon.use_tool_id(tid, "j2o-sim-faults")
            _TOOL_ID = tid
            return tid
    raise RuntimeError("no free sys.monitoring tool id")


def _cleanup_lines(fn_code: types.CodeType) -> set[int]:
    """Line numbers (absolute) that belong to finally-suites / except handlers
    of the function owning `fn_code` (including nested functions)."""
    try:
        src_lines, start = inspect.getsourcelines(fn_code)
    except (OSError, TypeError):
        return set()
    src = textwrap.dedent("".join(src_lines))
    try:
        tree = ast.parse(src)
    except SyntaxError:
        return set()
    out: set[int] = set()

    def mark(nodes: Iterable[ast.AST]) -> None:
        for n in nodes:
            for sub in ast.walk(n):
                ln = getattr(sub, "lineno", None)
                end = getattr(sub, "end_lineno", None)
                if ln is not None:
                    for x in range(ln, (end or ln) + 1):
                        out.add(x + start - 1)

    for node in ast.walk(tree):
        if isinstance(node, ast.Try):
            mark(node.finalbody)
            for h in node.handlers:
                mark(h.body)
    return out


def nested_codes(code: types.CodeType) -> list[types.CodeType]:
    out = [code]
    for c in code.co_consts:
        if isinstance(c, types.CodeType):
            out.extend(nested_codes(c))
    return out


def code_of(fn: Any) -> types.CodeType:
    seen = 0
    while seen < 8:
        if isinstance(fn, (classmethod, staticmethod)):
            fn = fn.__func__
        elif hasattr(fn, "__wrapped__"):
            fn = fn.__wrapped__
        elif hasattr(fn, "__func__"):
            fn = fn.__func__
        else:
            break
        seen += 1
    return fn.__code__


TARGET_MODULES = (
    "jax2onnx.plugins._patching",
    "jax2onnx.plugins.plugin_system",
    "jax2onnx.converter.conversion_api",
    "jax2onnx.converter.lowering_dispatch",
    "jax2onnx.user_interface",
)


def default_targets() -> list[types.CodeType]:
    """Code objects of EVERY function and method defined in the modules that
    own restorable state on the to_onnx path (patch stack, activation, flag
    helpers, conversion driver, lowering dispatch, user entry point).  Taking
    whole modules instead of a list of names keeps the fault model intact when
    the code is refactored into new helpers."""
    import importlib

    codes: list[types.CodeType] = []
    seen: set[int] = set()

    def add(fn: Any, modname: str) -> None:
        try:
            c = code_of(fn)
        except AttributeError:
            return
        if not isinstance(c, types.CodeType):
            return
        for cc in nested_codes(c):
            if id(cc) not in seen:
                seen.add(id(cc))
                codes.append(cc)

    for modname in TARGET_MODULES:
        mod = importlib.import_module(modname)
        modfile = getattr(mod, "__file__", None)
        for name, obj in list(vars(mod).items()):
            if isinstance(obj, type):
                if getattr(obj, "__module__", None) != modname:
                    continue
                for _, member in list(vars(obj).items()):
                    if isinstance(member, (types.FunctionType, classmethod, staticmethod, property)):
                        if isinstance(member, property):
                            for f in (member.fget, member.fset, member.fdel):
                                if f is not None:
                                    add(f, modname)
                        else:
                            add(member, modname)
            elif isinstance(obj, types.FunctionType) or hasattr(obj, "__wrapped__"):
                try:
                    c = code_of(obj)
                except AttributeError:
                    continue
                if getattr(c, "co_filename", None) == modfile:
                    add(obj, modname)
    return codes


class Injector:
    def __init__(self, codes: list[types.CodeType] | None = None) -> None:
        self.tid = _tool_id()
        self.codes = codes if codes is not None else default_targets()
        self.cleanup: dict[int, set[int]] = {}
        self.owner: dict[int, types.CodeType] = {}
        for c in self.codes:
            self.cleanup[id(c)] = _cleanup_lines(c)
        self.count = 0
        self.target: int | None = None
        self.exc_factory: Callable[[], BaseException] | None = None
        self.fired: dict | None = None
        self.trace: list | None = None
        self._line_cache: dict[tuple[int, int], int] = {}
        self.active = False
        self.region: str | None = None
        self.region_nth = -1
        self.region_count = 0
        mon.register_callback(self.tid, mon.events.CALL, self._on_call)

    # -- helpers ---------------------------------------------------------
    def _line(self, code: types.CodeType, offset: int) -> int:
        key = (id(code), offset)
        ln = self._line_cache.get(key)
        if ln is None:
            ln = -1
            for start, end, line in code.co_lines():
                if start <= offset < end:
                    ln = line if line is not None else -1
                    break
            self._line_cache[key] = ln
        return ln

    @staticmethod
    def _denied(callee: Any) -> bool:
        try:
            if callee in _DENY_BUILTINS:
                return True
        except TypeError:
            pass
        name = getattr(callee, "__name__", "")
        if name in _DENY_NAMES:
            return True
        slf = getattr(callee, "__self__", None)
        if slf is not None and isinstance(callee, types.BuiltinMethodType) and isinstance(slf, _DENY_METHOD_TYPES):
            return True
        if isinstance(callee, (types.MethodDescriptorType, types.WrapperDescriptorType)):
            oc = getattr(callee, "__objclass__", None)
            if oc in _DENY_METHOD_TYPES:
                return True
        return False

    def _on_call(self, code: types.CodeType, offset: int, callee: Any, arg0: Any) -> Any:
        if not self.active:
            return None
        cl = self.cleanup.get(id(code))
        if cl is None:
            return None
        line = self._line(code, offset)
        if line in cl:
            return None
        if self._denied(callee):
            return None
        k = self.count
        self.count += 1
        hit_region = False
        if self.region is not None and self.region in code.co_qualname:
            hit_region = self.region_count == self.region_nth
            self.region_count += 1
        if self.trace is not None:
            self.trace.append((code.co_qualname, line - code.co_firstlineno, getattr(callee, "__name__", type(callee).__name__)))
        if (self.target is not None and k == self.target) or hit_region:
            self.region = None
            self.fired = {
                "k": k,
                "in": code.co_qualname,
                "rel_line": line - code.co_firstlineno,
                "callee": getattr(callee, "__qualname__", getattr(callee, "__name__", type(callee).__name__)),
            }
            self.target = None
            assert self.exc_factory is not None
            raise self.exc_factory()
        return None

    # -- API ---------------------------------------------------------------
    def start(self, target: int | None, exc_factory: Callable[[], BaseException] | None = None, trace: bool = False, region: tuple | None = None) -> None:
        """target: fire at the k-th eligible CALL overall; region=(qualname
        substring, n): fire at the n-th eligible CALL made from code whose
        qualified name contains the substring."""
        self.count = 0
        self.region = region[0] if region else None
        self.region_nth = int(region[1]) if region else -1
        self.region_count = 0
        self.target = target
        self.exc_factory = exc_factory
        self.fired = None
        self.trace = [] if trace else None
        for c in self.codes:
            mon.set_local_events(self.tid, c, mon.events.CALL)
        self.active = True

    def stop(self) -> None:
        self.active = False
        for c in self.codes:
            mon.set_local_events(self.tid, c, 0)

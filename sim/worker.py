"""Worker entry: `python -m sim.worker plan.json out.json`.

Executes exactly the explicit plan it is given; never draws a random number
that is not derived from the plan; never reads a clock on a verdict path.
"""
from __future__ import annotations

import faulthandler
import importlib
import sys
import traceback

from sim.common import read_json, write_json


def main() -> int:
    plan_path, out_path = sys.argv[1], sys.argv[2]
    plan = read_json(plan_path)
    faulthandler.dump_traceback_later(float(plan.get("hang_dump_s", 840)), exit=False)
    try:
        mod = importlib.import_module("sim.props." + plan["property"].lower())
        res = mod.run(plan)
        res.setdefault("status", "violation" if res.get("violations") else "ok")
    except BaseException as exc:  # harness failure, never a verdict
        res = {
            "status": "harness_error",
            "error": f"{type(exc).__name__}: {exc}",
            "trace": traceback.format_exc()[-4000:],
            "violations": [],
            "stats": {},
        }
    write_json(out_path, res)
    sys.stdout.flush()
    sys.stderr.flush()
    # skip interpreter teardown (XLA/ORT thread pools can hang at exit)
    import os

    os._exit(0)


if __name__ == "__main__":
    main()

"""Sensitivity runner: for every /verif/seeded/<id>/ (patch.diff + meta.json)
make a scratch copy of the repository with the patch applied, run the listed
property's quick check against it (VERIF_REPO) and expect exit code 1 with a
VIOLATION line.  Scratch copies live in /dev/shm and are removed at once.
Evidence/replays of these runs go to a scratch directory, never to /verif.

usage: python -m sim.mutants [id ...]      (default: all)
"""
from __future__ import annotations

import json
import os
import shutil
import subprocess
import sys
import time

V = os.path.dirname(os.path.dirname(os.path.abspath(__file__)))


def run_one(mid: str, tier: str = "quick") -> dict:
    d = os.path.join(V, "seeded", mid)
    meta = json.load(open(os.path.join(d, "meta.json")))
    scratch = f"/dev/shm/j2o-mut-{mid}-{os.getpid()}"
    shutil.rmtree(scratch, ignore_errors=True)
    subprocess.run(["rsync", "-a", "--exclude", ".git", "--exclude", "__pycache__", "--exclude", "onnx", "--exclude", "site", "--exclude", "docs", "/repo/", scratch + "/"], check=True)
    r = subprocess.run(["patch", "-p1", "-s", "-d", scratch, "-i", os.path.join(d, "patch.diff")], capture_output=True, text=True)
    if r.returncode != 0:
        shutil.rmtree(scratch, ignore_errors=True)
        return {"id": mid, "error": f"patch failed: {r.stdout} {r.stderr}"}
    out: dict = {"id": mid, "results": {}}
    for prop in meta.get("checks", [meta["property"]]):
        env = dict(os.environ)
        env["VERIF_REPO"] = scratch
        env["VERIF_EVIDENCE_DIR"] = scratch + "-ev"
        env["VERIF_REPLAY_DIR"] = scratch + "-rp"
        env.update({k: str(v) for k, v in (meta.get("env") or {}).items()})
        t0 = time.time()
        p = subprocess.run([os.path.join(V, "bin", "check"), prop, "--tier", tier], capture_output=True, text=True, env=env, cwd=V)
        lines = [ln for ln in p.stdout.splitlines() if ln.startswith(("VIOLATION", "  sig=", "KNOWN", "HARNESS", "["))]
        out["results"][prop] = {"exit": p.returncode, "wall_s": round(time.time() - t0, 1), "lines": [ln[:400] for ln in lines][:12]}
        shutil.rmtree(scratch + "-ev", ignore_errors=True)
        shutil.rmtree(scratch + "-rp", ignore_errors=True)
    shutil.rmtree(scratch, ignore_errors=True)
    out["detected"] = any(v["exit"] == 1 for v in out["results"].values())
    return out


def main() -> int:
    ids = sys.argv[1:] or sorted(x for x in os.listdir(os.path.join(V, "seeded")) if os.path.exists(os.path.join(V, "seeded", x, "meta.json")))
    res = []
    for mid in ids:
        r = run_one(mid)
        res.append(r)
        print(json.dumps(r, indent=1))
        sys.stdout.flush()
    missed = [r["id"] for r in res if not r.get("detected")]
    print(f"mutants: {len(res)} run, {len(res) - len(missed)} detected, missed: {missed}")
    return 0 if not missed else 1


if __name__ == "__main__":
    sys.exit(main())

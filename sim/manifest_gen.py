"""Regenerates /verif/MANIFEST.json from one table (keeps it valid at all times)."""
from __future__ import annotations

import json
import os
import sys

V = os.path.dirname(os.path.dirname(os.path.abspath(__file__)))

NA = {
    "C01": "Pure function of (program, flags, input tensor): for a fixed request the exported model's output has no schedule, clock, fault, crash point or history to depend on; generating programs/inputs would be differential testing under simulator vocabulary (DESIGN §6).",
    "C02": "Optimizer semantics is a pure function of the input graph; its only schedule dimension (node-set iteration order) is decided with a byte-level oracle under C14 and pass-prefix equivalence under C16 (DESIGN §6).",
    "C03": "Well-formedness is a pure function of (program, configuration); no interleaving/fault/history in the quantifier. The crash-prefix variant is part of C16 (DESIGN §6).",
    "C04": "Quantifies over symbol bindings fed to one fixed model: inputs only, nothing for a simulator to schedule or fault (DESIGN §6).",
    "C05": "Interface shape is a pure function of (program, configuration) (DESIGN §6).",
    "C06": "Branch / trip-count coverage is an input quantifier over a fixed exported model (DESIGN §6).",
    "C08": "Annotation truth is a pure function of (model, inputs) (DESIGN §6).",
    "C09": "dtype policy is a pure function of (program, flag); its one stateful clause (64-bit flag restored) is verbatim part of C13 and decided there (DESIGN §6).",
    "C10": "Commutation with vmap/grad/jit is a pure program x input statement (DESIGN §6).",
    "C11": "Opset conformance is a pure function of (program, opset) (DESIGN §6).",
    "C12": "Layout equivalence is a pure function of (program, flags, input) (DESIGN §6).",
    "C17": "A universally quantified arithmetic fact about dtype pairs; the right tools are exhaustive enumeration or SMT, i.e. another technique family (DESIGN §6).",
    "C18": "allclose is a pure function of (fn, stored bytes, inputs, tolerances); corrupting files would be input generation in simulator vocabulary; its flag-restoration clause is the same mechanism C13 exercises (DESIGN §6).",
    "C19": "A statement about every call form of ~300 signatures: programs x configurations, no history or fault (DESIGN §6).",
}

CHECKS = {
    "C16": dict(
        category="fault_enumeration",
        text="Crash-point enumeration: for each program (hand-written fixtures + the repo's own registered testcases) every optimizer pass index (top level and per function body) is forced to abort under the default and the strict policy, and every equation-dispatch ordinal of the whole jaxpr tree is faulted three ways; each faulted to_onnx runs real code in a fresh-interpreter worker and is judged against the fault-free control of the same program (raise vs return, onnx checker full_check, ORT load, ORT outputs). Thorough = the entire registry x all crash points (exhaustive over registered programs when the budget suffices). Sampling, not proof, over programs.",
        design_ref="§5.5",
        note="Trusted: onnx.checker, onnxruntime (single-threaded, no graph optimisation), the seams (module globals _OPTIMIZER_PASSES / dispatch_plugin_lowering / get_registered_lowering_plugin looked up at call time). Mid-pass aborts are excluded by the property's own quantifier.",
        technique="deterministic simulation: crash-point / fault enumeration with fault-free control",
    ),
}


def main() -> None:
    built = [c for c in CHECKS if os.path.exists(os.path.join(V, "sim", "props", c.lower() + ".py"))]
    checks = []
    for pid in sorted(built):
        c = CHECKS[pid]
        checks.append(
            {
                "property_id": pid,
                "quick_cmd": f"bin/check {pid} --tier quick",
                "thorough_cmd": f"bin/check {pid} --tier thorough",
                "evidence_file": f"/verif/evidence/{pid}.json",
                "replay_cmd_template": "bin/check replay {path}",
                "engine": "sim",
                "level_claimed": {"category": c["category"], "text": c["text"], "design_ref": c["design_ref"]},
                "level_note": c["note"],
                "technique": c["technique"],
            }
        )
    na = [{"property_id": k, "reason": v} for k, v in sorted(NA.items())]
    for pid, sec in (("C07", "§5.1"), ("C13", "§5.2"), ("C14", "§5.3"), ("C15", "§5.4"), ("C16", "§5.5")):
        if pid not in built:
            na.append({"property_id": pid, "reason": f"Simulation target (DESIGN {sec}); check not built yet in this commit, therefore not claimed."})
    na.sort(key=lambda d: d["property_id"])
    m = {
        "version": 1,
        "setup_cmd": "bin/setup",
        "hooks": {
            "guard": "JAX2ONNX_VERIF",
            "enable": "no source hooks are needed: every seam is a module global / class attribute / interpreter facility patched from /verif at run time inside the worker interpreter (DESIGN §2, §3.2)",
            "baseline_off_cmd": "cd /repo && /venv/bin/python -m pytest -ra -q -p no:cacheprovider --timeout=900 --continue-on-collection-errors",
            "source_commits": [],
            "add_only": True,
        },
        "engines": [
            {
                "name": "sim",
                "path": "/verif/sim",
                "serves_properties": sorted(built),
                "kind_free_text": "deterministic simulation with fault injection: explicit plans expanded from VERIF_SEED, one fresh interpreter per simulated run, seams patched at run time, fault-free control as oracle, replay + ddmin minimisation",
            }
        ],
        "checks": checks,
        "not_applicable": na,
        "notes": "Exit codes: 0 held (possibly KNOWN-FINDING lines), 1 + 'VIOLATION property=<id> replay=<path>', 2 + 'HARNESS-ERROR' (never a verdict). known_findings.json is read-only at run time. VERIF_SEED, VERIF_BUDGET_S, VERIF_JOBS, VERIF_REPO are honoured.",
    }
    with open(os.path.join(V, "MANIFEST.json"), "w") as f:
        json.dump(m, f, indent=1)
        f.write("\n")


if __name__ == "__main__":
    main()

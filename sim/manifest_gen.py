"""Regenerates /verif/MANIFEST.json from one table (keeps it valid at all times)."""
from __future__ import annotations

import json
import os
import sys

V = os.path.dirname(os.path.dirname(os.path.abspath(__file__)))

NA = {
    "C01": "Pure function of (program, flags, input tensor): for a fixed request the exported model's output has no schedule, clock, fault, crash point or history to depend on; generating programs/inputs would be differential testing under simulator vocabulary (DESIGN §6).",
    "C02": "Optimizer semantics is a pure function of the input graph; its only schedule dimension (node-set iteration order) is decided with a byte-level oracle under C14 and pass-prefix equivalence under C16 (DESIGN §6).",
    "C03": "Well-formedness is a pure function of (program, configuration); no interleaving/fault/history in the quantifier. The crash-prefix variant is part of C16 (DESIGN §6).",
    "C04": "Quantifies over symbol bindings fed to one fixed model: inputs only, nothing for a simulator to schedule or fault (DESIGN §6).",
    "C05": "Interface shape is a pure function of (program, configuration) (DESIGN §6).",
    "C06": "Branch / trip-count coverage is an input quantifier over a fixed exported model (DESIGN §6).",
    "C08": "Annotation truth is a pure function of (model, inputs) (DESIGN §6).",
    "C09": "dtype policy is a pure function of (program, flag); its one stateful clause (64-bit flag restored) is verbatim part of C13 and decided there (DESIGN §6).",
    "C10": "Commutation with vmap/grad/jit is a pure program x input statement (DESIGN §6).",
    "C11": "Opset conformance is a pure function of (program, opset) (DESIGN §6).",
    "C12": "Layout equivalence is a pure function of (program, flags, input) (DESIGN §6).",
    "C17": "A universally quantified arithmetic fact about dtype pairs; the right tools are exhaustive enumeration or SMT, i.e. another technique family (DESIGN §6).",
    "C18": "allclose is a pure function of (fn, stored bytes, inputs, tolerances); corrupting files would be input generation in simulator vocabulary; its flag-restoration clause is the same mechanism C13 exercises (DESIGN §6).",
    "C19": "A statement about every call form of ~300 signatures: programs x configurations, no history or fault (DESIGN §6).",
}

CHECKS = {
    "C07": dict(
        category="exploration",
        text="Deterministic simulation of decoration/instance/conversion histories: each simulated run (fresh interpreter) executes a seeded history over a pool of live instances of decorated targets (module-level functions with kwargs, nnx modules, nested nnx modules, unique=True modules, Equinox modules with static fields, plain classes, a class decorated late, re-decoration with unique=True, drop + GC for id reuse, temporaries created inside the traced function, re-entrant nesting A->B->A', an undecorated subclass delegating to super(), targets exported under the name of an ONNX operator, binary targets with constant/data/unread operands, keyword values equal but of different type, pass-through and rewrite-pattern bodies, a large non-contiguous unique=True parameter) and exports generated compositions of 1-6 call sites (same instance twice, equal-weight twins, twins differing in exactly one respect, different weights/static field/kwarg/input shape, call order, symbolic batch, opset 21/23, input_params, one site passing a compile-time constant), some under injected faults in the function-body path. Oracle per successful export: ORT(decorated) == ORT(reference = same callable with all function plugins removed from the registry) == eager JAX on three seeded inputs; every call node has exactly one definition with equal input/output arity and an imported domain (recursively); call sites sharing a definition come from value-equal objects. Seeded search over histories.",
        design_ref="§5.1",
        note="Trusted: onnxruntime, eager JAX, the registry-removal reference export. Distinct weights differ by far more than the tolerance, so a confused instance is visible numerically.",
        technique="deterministic simulation: seeded stateful histories (decorate/instantiate/drop/GC/convert/faulted convert) with differential oracle vs undecorated export and JAX",
    ),
    "C15": dict(
        category="exploration",
        text="Deterministic simulation of export/reload histories against a reference map path -> expected ModelProto: seeded sequences of file exports (standard/web) to five paths (existing dir, not-yet-existing subdir, relative to cwd, two names that differ from another target only by their suffix), ir and proto exports, user edits of returned ir models, planted stale/garbage sidecars and late reloads, with parameter sizes on a 4-byte ladder around the 1 MiB spill point, 512 KiB, 4 MiB, one or two large tensors, large constants inside function and loop bodies; requests with input_params, custom input/output names, NCHW boundaries, double precision and their combinations, lax.cond and dead-code programs, two registry testcases per run; every request goes through the ir-vs-proto comparison. Odd-numbered runs inject I/O faults through a file layer that owns open/os.fdopen/write/os.remove/os.path.getsize/os.makedirs (errors, torn writes, crash-class exceptions). Oracle after every returned export: reload equals the proto of the same request after storage normalisation (bit-exact payloads), external references resolve inside the directory, web main file alone loads, ORT(file)==ORT(proto) bitwise, ir->proto byte-equal, earlier ir handles unchanged, and the files delivered earlier to OTHER paths still resolve their references.",
        design_ref="§5.4",
        note="Trusted: onnx.load, onnxruntime, tmpfs semantics. After a raised export nothing is required of the files; the next successful export to that path must satisfy everything. Seeded search over histories.",
        technique="deterministic simulation: stateful export/reload machine over a fault-injecting file layer with an in-memory reference model",
    ),
    "C14": dict(
        category="exploration",
        text="Deterministic simulation over schedules and histories: each simulated run is a fresh interpreter with a seeded PYTHONHASHSEED, a seeded plugin-import permutation, seeded iteration permutations for every node set the optimizer builds, seeded hash values for ir.Node/ir.Value (stand-in for arbitrary object addresses), seeded GC points (between trace and lowering, between equations) and allocation perturbation, executing a seeded history (other conversions, faulted conversions via the C13 injector, late decorations, precision neighbours, repeats, identically constructed twins, in-place weight updates of live instances between two exports). Oracle: sha256 of SerializeToString(deterministic=True) equals the digest from a canonical interpreter for the same request (registry requests on which two canonical interpreters disagree are only compared within a process; for seeded fixture requests such a disagreement is itself a violation). Seeded search, not exhaustive.",
        design_ref="§5.3",
        note="Trusted: protobuf deterministic serialisation; the schedule seams (module-global `set` in ir_optimizations, ir.Node/ir.Value.__hash__, PYTHONHASHSEED, gc). Hash-ordered containers of other object kinds inside third-party libraries are only varied through PYTHONHASHSEED and allocation perturbation.",
        technique="deterministic simulation: seeded schedule (hash seed, import order, set-iteration order, object hashes, GC points) x seeded history, byte-digest oracle vs canonical interpreter",
    ),
    "C13": dict(
        category="fault_enumeration",
        text="Deterministic simulation of conversion histories in fresh interpreters with synchronous fault injection: (1) exhaustive enumeration of every eligible CALL site of the patch stack and its callers (sys.monitoring, ~9-20k sites per program) x {ordinary exception, interrupt-class exception} for fixed fixture programs (flat function, module with @onnx_function children, nested functions); (2) seeded histories mixing fault-free and faulted conversions of fixture and registry programs, precision flags (global and scoped), return modes, late and nested decorations, conversions started while another is in flight, GC and eager probes (plain call, jax.jit and jax.eval_shape of the converted callable itself). After every operation the oracle compares the declared write set (586 attributes), periodically the full namespace (~100k statically resolved attributes of jax/flax/equinox/... modules and classes, plus ~1.6k entries of JAX's per-primitive dispatch tables for primitives the host owns), the 64-bit flag (also between operations: what the user's own operations imply), a deep fingerprint of the user object, and eager behaviour against a conversion-free control interpreter (bitwise for fixture programs). Sampling over histories, exhaustive over single-fault sites of the enumerated programs.",
        design_ref="§5.2",
        note="Fault model excludes faults inside cleanup code and asynchronous interrupts between arbitrary lines (no Python code can be safe against those). Trusted: sys.monitoring delivery, inspect.getattr_static, bit-determinism of eager XLA-CPU results across interpreters (falls back to 1e-5 on summary statistics).",
        technique="deterministic simulation: seeded histories + exhaustive synchronous fault-site enumeration, namespace/flag/user-object/behaviour oracle vs control interpreter",
    ),
    "C16": dict(
        category="fault_enumeration",
        text="Crash-point enumeration: for each program (hand-written fixtures + the repo's own registered testcases) every optimizer pass index (top level and per function body) is forced to abort under the default policy and under the strict policy (quick tier: strict at the first, the last and four seeded pass indices), and every equation-dispatch ordinal of the whole jaxpr tree is faulted seven ways (registry miss, plugin binds nothing, binds an unproduced value, raises, finds one of its inputs unbound, returns too many values, returns a non-value; quick tier: four of the seven per equation); each faulted to_onnx runs real code in a fresh-interpreter worker and is judged against the fault-free control of the same program (raise vs return, onnx checker full_check, ORT load, ORT outputs); plus a catalogue of ~100 named unsupported constructs and unusual static variants (loud, or correct and structurally complete), some with a shared cell function or a preceding conversion of the supported sibling in the same interpreter, and value histories of the strict switch. Thorough = the entire registry x all crash points (exhaustive over registered programs when the budget suffices). Sampling, not proof, over programs.",
        design_ref="§5.5",
        note="Trusted: onnx.checker, onnxruntime (single-threaded, no graph optimisation), the seams (module globals _OPTIMIZER_PASSES / dispatch_plugin_lowering / get_registered_lowering_plugin looked up at call time). Mid-pass aborts are excluded by the property's own quantifier.",
        technique="deterministic simulation: crash-point / fault enumeration with fault-free control",
    ),
}


def main() -> None:
    built = [c for c in CHECKS if os.path.exists(os.path.join(V, "sim", "props", c.lower() + ".py"))]
    checks = []
    for pid in sorted(built):
        c = CHECKS[pid]
        checks.append(
            {
                "property_id": pid,
                "quick_cmd": f"bin/check {pid} --tier quick",
                "thorough_cmd": f"bin/check {pid} --tier thorough",
                "evidence_file": f"/verif/evidence/{pid}.json",
                "replay_cmd_template": "bin/check replay {path}",
                "engine": "sim",
                "level_claimed": {"category": c["category"], "text": c["text"], "design_ref": c["design_ref"]},
                "level_note": c["note"],
                "technique": c["technique"],
            }
        )
    na = [{"property_id": k, "reason": v} for k, v in sorted(NA.items())]
    for pid, sec in (("C07", "§5.1"), ("C13", "§5.2"), ("C14", "§5.3"), ("C15", "§5.4"), ("C16", "§5.5")):
        if pid not in built:
            na.append({"property_id": pid, "reason": f"Simulation target (DESIGN {sec}); check not built yet in this commit, therefore not claimed."})
    na.sort(key=lambda d: d["property_id"])
    m = {
        "version": 1,
        "setup_cmd": "bin/setup",
        "hooks": {
            "guard": "JAX2ONNX_VERIF",
            "enable": "no source hooks are needed: every seam is a module global / class attribute / interpreter facility patched from /verif at run time inside the worker interpreter (DESIGN §2, §3.2)",
            "baseline_off_cmd": "cd /repo && /venv/bin/python -m pytest -ra -q -p no:cacheprovider --timeout=900 --continue-on-collection-errors",
            "source_commits": [],
            "add_only": True,
        },
        "engines": [
            {
                "name": "sim",
                "path": "/verif/sim",
                "serves_properties": sorted(built),
                "kind_free_text": "deterministic simulation with fault injection: explicit plans expanded from VERIF_SEED, one fresh interpreter per simulated run, seams patched at run time, fault-free control as oracle, replay + ddmin minimisation",
            }
        ],
        "checks": checks,
        "not_applicable": na,
        "notes": "Exit codes: 0 held (possibly KNOWN-FINDING lines), 1 + 'VIOLATION property=<id> replay=<path>', 2 + 'HARNESS-ERROR' (never a verdict). known_findings.json is read-only at run time. VERIF_SEED, VERIF_BUDGET_S, VERIF_JOBS, VERIF_REPO are honoured.",
    }
    with open(os.path.join(V, "MANIFEST.json"), "w") as f:
        json.dump(m, f, indent=1)
        f.write("\n")


if __name__ == "__main__":
    main()

"""Determinism self-test: every sampled plan is executed twice with the same
schedule (and, for every property except C14 whose hash seed is a schedule
parameter, a third time under another PYTHONHASHSEED), at worker counts 16
and 1; event-log digests must be equal.  A divergence is a harness bug."""
from __future__ import annotations

import json
import os
import sys
import time

from sim import coordinator as co
from sim.common import verif_seed


def sample_plans(n: int, seed: int) -> list[tuple[str, dict]]:
    from sim.props import c07, c13, c14, c15, c16

    out: list[tuple[str, dict]] = []
    for i in range(n):
        out.append(("C07", {"property": "C07", "hashseed": 0, "seed": seed, "ops": c07.gen_history(seed, 1000 + i, 30)}))
        out.append(("C15", {"property": "C15", "hashseed": 0, "ops": c15.gen_ops(seed, 1000 + i, "quick", i % 2 == 1)}))
        h = c13.gen_history(seed, 1000 + i, [], 30)
        out.append(("C13", {"property": "C13", "hashseed": 0, "ops": h, "stop_on_violation": False, "known": [".*"]}))
        out.append(("C13", {"property": "C13", "hashseed": 0, "ops": [{"op": "enum", "pid": "fx::c13::flat", "shard": [i, 400], "stride": 1}], "known": [".*"]}))
        fx = ["fx::c16::cf_nested", "fx::c16::outer", "fx::c16::resconv_nchw", "fx::c16::fn_boundary", "fx::c16::cf_scan", "fx::c16::net"]
        out.append(("C16", {"property": "C16", "hashseed": 0, "ops": [{"op": "enum", "pid": fx[i % len(fx)], "eqn_cap": 12, "fn_cap": 2, "seed": seed}]}))
        out.append(("C16", {"property": "C16", "hashseed": 0, "ops": [{"op": "catalogue", "pid": "fx::c16cat::scan_rev_shared@top", "pre": ["fx::c16cat::scan_fwd_shared@top"]}, {"op": "catalogue", "pid": "fx::c16cat::scan_fwd_rev@fn"}, {"op": "enum", "pid": "fx::c16::f16_cast_chain", "eqn_cap": 12, "fn_cap": 2, "seed": seed, "all_modes": True}]}))
        reqs = [{"op": "convert", "pid": f"fx::c14::{x}"} for x in c14.FX]
        reqs += [{"op": "convert", "pid": f"fx::c14::{n_}", "mut": st} for n_ in ("ublock_twins", "block_twins") for st in (0, 1, 2, 3)]
        p = c14.gen_run(seed, 1000 + i, reqs, 12)
        p["reference"] = {}
        out.append(("C14", p))
    return out


def main() -> int:
    n = int(os.environ.get("VERIF_SELFTEST_N", "3"))
    seed = verif_seed()
    t0 = time.time()
    plans = sample_plans(n, seed)
    batch: list[dict] = []
    meta: list[tuple[int, str, str]] = []
    for i, (prop, p) in enumerate(plans):
        for variant in ("a", "b", "hash"):
            q = json.loads(json.dumps(p))
            if variant == "hash":
                if prop == "C14":
                    continue
                q["hashseed"] = 12345 + i
            batch.append(q)
            meta.append((i, prop, variant))
    res16 = co.run_plans(batch, timeout=900, jobs=16)
    # a subset again with a single worker
    sub = [k for k, (i, prop, v) in enumerate(meta) if v == "a"][: max(2, n)]
    res1 = co.run_plans([batch[k] for k in sub], timeout=900, jobs=1)
    bad = 0
    by_plan: dict[int, dict[str, str]] = {}
    for (i, prop, v), r in zip(meta, res16):
        if not r or r.get("status") in ("harness_error", "timeout"):
            print(f"HARNESS-ERROR selftest plan {i} {prop}/{v}: {str(r)[:400]}")
            bad += 1
            continue
        by_plan.setdefault(i, {})[v] = r.get("log_digest", "")
    for k, r in zip(sub, res1):
        i, prop, v = meta[k]
        if r:
            by_plan.setdefault(i, {})["jobs1"] = r.get("log_digest", "")
    for i, d in sorted(by_plan.items()):
        prop = plans[i][0]
        vals = set(d.values())
        ok = len(vals) == 1
        print(f"plan {i:3d} {prop} variants={sorted(d)} digests={sorted(vals)} {'OK' if ok else 'DIVERGED'}")
        if not ok:
            bad += 1
    print(f"determinism selftest: {len(by_plan)} plans, {len(batch) + len(sub)} interpreters, {bad} problems, {time.time() - t0:.0f}s")
    co.cleanup_workdir()
    return 0 if bad == 0 else 2


if __name__ == "__main__":
    sys.exit(main())

"""Host-process snapshot for C13: identity of every attribute of the watched
library namespaces (modules and classes, MRO-resolved), the declared write
set of the converter, the 64-bit flag, and helpers to diff two snapshots.

Objects of the baseline are kept alive, so identity comparison is `is`.
"""
from __future__ import annotations

import inspect
import sys
import types
from typing import Any

WATCH = ("jax", "jaxlib", "flax", "equinox", "dm_pix", "einops", "optax", "orbax", "jaxtyping", "chex")
_MISSING = object()
_SCALAR = (int, float, complex, str, bytes, bool, type(None))


def _top(name: str) -> str:
    return name.split(".", 1)[0]


def watched_modules() -> list[tuple[str, types.ModuleType]]:
    out = []
    for name in sorted(sys.modules):
        m = sys.modules.get(name)
        if m is None or not isinstance(m, types.ModuleType):
            continue
        if _top(name) in WATCH:
            out.append((name, m))
    return out


_CODE_TYPES = (
    types.ModuleType,
    types.FunctionType,
    types.BuiltinFunctionType,
    types.MethodType,
    types.MethodDescriptorType,
    types.WrapperDescriptorType,
    types.MemberDescriptorType,
    types.GetSetDescriptorType,
    property,
    classmethod,
    staticmethod,
    type,
)


def _is_codelike(v: Any) -> bool:
    """Functions, builtins, classes, modules, descriptors, partials, primitives
    and other callables.  Plain data (scalars, dicts such as lazily evaluated
    __annotations__, lists, counters) that libraries rebind on their own is not
    the converter's doing and is ignored unless it is in the write set."""
    if isinstance(v, _SCALAR):
        return False
    if isinstance(v, _CODE_TYPES):
        return True
    if isinstance(v, (dict, list, tuple, set, frozenset, bytearray)):
        return False
    try:
        return callable(v)
    except Exception:
        return False


def _from_jax2onnx(v: Any) -> bool:
    seen = 0
    while v is not None and seen < 6:
        mod = getattr(v, "__module__", None)
        if isinstance(mod, str) and mod.startswith("jax2onnx"):
            return True
        code = getattr(v, "__code__", None)
        if code is not None and "jax2onnx" in getattr(code, "co_filename", ""):
            return True
        f = getattr(v, "__func__", None)
        if f is not None and f is not v:
            v = f
        else:
            v = getattr(v, "func", None) if not hasattr(v, "__code__") else None
        seen += 1
    return False


def _class_resolved(cls: type) -> dict[str, Any]:
    res: dict[str, Any] = {}
    for k in reversed(cls.__mro__):
        if k is object:
            continue
        try:
            d = vars(k)
        except TypeError:
            continue
        for a, v in d.items():
            res[a] = v
    return res


class Snapshot:
    def __init__(self) -> None:
        self.mod: dict[tuple[str, str], Any] = {}
        self.cls: dict[tuple[int, str], Any] = {}
        self.classes: dict[int, type] = {}
        self.cls_name: dict[int, str] = {}
        self.n = 0

    def rebase(self, tgt: Any, attr: str) -> None:
        """Record a user-made rebinding so that the full sweep expects it."""
        if isinstance(tgt, types.ModuleType):
            if (tgt.__name__, attr) in self.mod:
                self.mod[(tgt.__name__, attr)] = vars(tgt).get(attr)
            return
        if isinstance(tgt, type):
            for cid, c in self.classes.items():
                if c is tgt or (isinstance(c, type) and issubclass(c, tgt)):
                    try:
                        self.cls[(cid, attr)] = _class_resolved(c).get(attr)
                    except Exception:
                        pass

    @classmethod
    def take(cls) -> "Snapshot":
        s = cls()
        for name, m in watched_modules():
            try:
                items = list(vars(m).items())
            except Exception:
                continue
            for a, v in items:
                s.mod[(name, a)] = v
                if isinstance(v, type) and _top(getattr(v, "__module__", "") or "") in WATCH:
                    if id(v) not in s.classes:
                        s.classes[id(v)] = v
                        s.cls_name[id(v)] = f"{v.__module__}.{v.__qualname__}"
        for cid, c in s.classes.items():
            try:
                for a, v in _class_resolved(c).items():
                    s.cls[(cid, a)] = v
            except Exception:
                continue
        s.n = len(s.mod) + len(s.cls)
        return s


def diff(base: Snapshot, now: Snapshot, writeset: set, ignore: set | None = None) -> list[dict]:
    """Return list of changes that count: identity change of a code-like value
    that existed in the baseline; new attribute only when it is in the
    declared write set or its value comes from jax2onnx."""
    ignore = ignore or set()
    out: list[dict] = []
    for key, v0 in base.mod.items():
        v1 = now.mod.get(key, _MISSING)
        if v1 is v0:
            continue
        if v1 is _MISSING:
            if key[0] not in sys.modules:
                continue
            if _is_codelike(v0) or _from_jax2onnx(v0):
                out.append({"where": f"{key[0]}.{key[1]}", "kind": "deleted"})
            continue
        if not (_is_codelike(v0) or _is_codelike(v1)):
            continue
        tag = f"{key[0]}.{key[1]}"
        if tag in ignore:
            continue
        out.append({"where": tag, "kind": "rebound", "now_from_jax2onnx": _from_jax2onnx(v1), "now": _short(v1)})
    for key, v1 in now.mod.items():
        if key in base.mod:
            continue
        tag = f"{key[0]}.{key[1]}"
        if tag in ignore:
            continue
        if _from_jax2onnx(v1) or tag in writeset:
            # a module first imported after the baseline has no baseline at all
            if not any(k[0] == key[0] for k in (key,)) or _module_in_base(base, key[0]):
                out.append({"where": tag, "kind": "added", "now_from_jax2onnx": _from_jax2onnx(v1), "now": _short(v1)})
    for (cid, a), v0 in base.cls.items():
        v1 = now.cls.get((cid, a), _MISSING)
        if v1 is v0:
            continue
        tag = f"{base.cls_name[cid]}.{a}"
        if tag in ignore:
            continue
        if v1 is _MISSING:
            if cid in now.classes:
                out.append({"where": tag, "kind": "deleted"})
            continue
        if not (_is_codelike(v0) or _is_codelike(v1)):
            continue
        out.append({"where": tag, "kind": "rebound", "now_from_jax2onnx": _from_jax2onnx(v1), "now": _short(v1)})
    for (cid, a), v1 in now.cls.items():
        if (cid, a) in base.cls or cid not in base.classes:
            continue
        tag = f"{now.cls_name[cid]}.{a}"
        if tag in ignore:
            continue
        if _from_jax2onnx(v1) or tag in writeset:
            out.append({"where": tag, "kind": "added", "now_from_jax2onnx": _from_jax2onnx(v1), "now": _short(v1)})
    out.sort(key=lambda d: (d["where"], d["kind"]))
    return out


def _module_in_base(base: Snapshot, modname: str) -> bool:
    # cheap: any key with that module name
    for k in base.mod:
        if k[0] == modname:
            return True
    return False


def _short(v: Any) -> str:
    try:
        q = getattr(v, "__qualname__", None) or getattr(v, "__name__", None) or type(v).__name__
        m = getattr(v, "__module__", "")
        return f"{m}.{q}"[:120]
    except Exception:
        return type(v).__name__


# ---------------------------------------------------------------------------
# declared write set of the converter
# ---------------------------------------------------------------------------


class WriteSet:
    """Every (target object, attr) the converter declares it may rebind, with
    the statically resolved baseline value."""

    def __init__(self) -> None:
        self.entries: list[tuple[Any, str, Any, str]] = []  # (target, attr, baseline, tag)
        self.tags: set[str] = set()

    @classmethod
    def take(cls) -> "WriteSet":
        from jax2onnx.plugins import plugin_system as ps
        from jax2onnx.plugins._patching import _resolve

        w = cls()
        seen: set[tuple[int, str]] = set()
        for name in list(ps.PLUGIN_REGISTRY):
            plugin = ps.PLUGIN_REGISTRY[name]
            pairs: list[tuple[Any, str]] = []
            if isinstance(plugin, ps.PrimitiveLeafPlugin):
                try:
                    specs = plugin.__class__.binding_specs()
                except Exception:
                    specs = []
                for s in specs:
                    try:
                        tgt = _resolve(s.target)
                    except Exception:
                        continue
                    pairs.append((tgt, s.attr))
            elif isinstance(plugin, ps.FunctionPlugin):
                tgt = plugin.target
                if inspect.isclass(tgt):
                    pairs.append((tgt, "__call__"))
                else:
                    mod = inspect.getmodule(tgt)
                    if mod is not None:
                        pairs.append((mod, getattr(tgt, "__name__", "")))
            for tgt, attr in pairs:
                k = (id(tgt), attr)
                if k in seen:
                    continue
                seen.add(k)
                tag = f"{_target_name(tgt)}.{attr}"
                w.entries.append((tgt, attr, inspect.getattr_static(tgt, attr, _MISSING), tag))
                w.tags.add(tag)
        return w

    def refresh_new_function_targets(self) -> None:
        """Late decorations add targets; record their current (pristine) value."""
        from jax2onnx.plugins import plugin_system as ps

        have = {(id(t), a) for t, a, _, _ in self.entries}
        for plugin in list(ps.PLUGIN_REGISTRY.values()):
            if not isinstance(plugin, ps.FunctionPlugin):
                continue
            tgt = plugin.target
            if inspect.isclass(tgt):
                pair = (tgt, "__call__")
            else:
                mod = inspect.getmodule(tgt)
                if mod is None:
                    continue
                pair = (mod, getattr(tgt, "__name__", ""))
            if (id(pair[0]), pair[1]) in have:
                continue
            tag = f"{_target_name(pair[0])}.{pair[1]}"
            self.entries.append((pair[0], pair[1], inspect.getattr_static(pair[0], pair[1], _MISSING), tag))
            self.tags.add(tag)

    def rebase(self, tgt: Any, attr: str) -> bool:
        """The *user* re-bound this attribute: what must be restored from now
        on is the user's object (the state before the next call)."""
        for i, (t, a, _, tag) in enumerate(self.entries):
            if t is tgt and a == attr:
                self.entries[i] = (t, a, inspect.getattr_static(t, a, _MISSING), tag)
                return True
        return False

    def check(self) -> list[dict]:
        out = []
        for tgt, attr, base, tag in self.entries:
            now = inspect.getattr_static(tgt, attr, _MISSING)
            if now is base:
                continue
            out.append(
                {
                    "where": tag,
                    "kind": "added" if base is _MISSING else ("deleted" if now is _MISSING else "rebound"),
                    "now_from_jax2onnx": _from_jax2onnx(now) if now is not _MISSING else False,
                    "now": _short(now) if now is not _MISSING else None,
                }
            )
        out.sort(key=lambda d: (d["where"], d["kind"]))
        return out

    def repair(self) -> int:
        n = 0
        for tgt, attr, base, _ in self.entries:
            now = inspect.getattr_static(tgt, attr, _MISSING)
            if now is base:
                continue
            try:
                if base is _MISSING:
                    delattr(tgt, attr)
                else:
                    own = vars(tgt).get(attr, _MISSING) if hasattr(tgt, "__dict__") else _MISSING
                    if isinstance(tgt, type) and own is not _MISSING:
                        # was it inherited in the baseline?
                        inherited = all(attr not in vars(tgt) or True for _ in ())
                        delattr(tgt, attr)
                        if inspect.getattr_static(tgt, attr, _MISSING) is not base:
                            setattr(tgt, attr, base)
                    else:
                        setattr(tgt, attr, base)
                n += 1
            except Exception:
                pass
        return n


def _target_name(t: Any) -> str:
    if isinstance(t, types.ModuleType):
        return t.__name__
    if isinstance(t, type):
        return f"{t.__module__}.{t.__qualname__}"
    return f"<{type(t).__name__}:{getattr(t, '__name__', '')}>"


# ---------------------------------------------------------------------------
# dispatch tables of the host libraries (dict contents, not attribute identity)
# ---------------------------------------------------------------------------


class Tables:
    """JAX keeps its per-primitive rules (batching, jvp, transpose, MLIR
    lowerings, partial-eval/dce rules, ...) in module-level dicts keyed by
    Primitive objects, and a few per-primitive rules on the Primitive instance
    itself.  Rebinding an entry for a primitive the *host* owns changes eager
    behaviour exactly like rebinding a module attribute does, without touching
    any attribute.  Host-owned = a Primitive reachable as an attribute of a
    watched module at baseline (the converter's own primitives live in
    jax2onnx modules and are not watched)."""

    def __init__(self) -> None:
        self.host_prims: dict[int, Any] = {}
        self.tables: dict[tuple[str, str], tuple[dict, dict[int, Any]]] = {}
        self.prim_attrs: dict[tuple[int, str], Any] = {}
        self.n = 0

    @classmethod
    def take(cls) -> "Tables":
        t = cls()
        try:
            from jax._src import core as jcore

            P = jcore.Primitive
        except Exception:
            return t
        mods = watched_modules()
        for name, m in mods:
            try:
                items = list(vars(m).items())
            except Exception:
                continue
            for a, v in items:
                if isinstance(v, P):
                    t.host_prims.setdefault(id(v), v)
        seen: set[int] = set()
        for name, m in mods:
            try:
                items = list(vars(m).items())
            except Exception:
                continue
            for a, v in items:
                if type(v) is not dict or id(v) in seen or not v:
                    continue
                seen.add(id(v))
                try:
                    ks = list(v.keys())
                except Exception:
                    continue
                if not any(isinstance(k, P) for k in ks[:8]):
                    continue
                t.tables[(name, a)] = (v, {id(k): v[k] for k in ks if id(k) in t.host_prims})
        for pid_, p in t.host_prims.items():
            try:
                for a, v in vars(p).items():
                    if _is_codelike(v):
                        t.prim_attrs[(pid_, a)] = v
            except Exception:
                continue
        t.n = sum(len(e[1]) for e in t.tables.values()) + len(t.prim_attrs)
        return t

    def check(self, ignore: set | None = None) -> list[dict]:
        ignore = ignore or set()
        out: list[dict] = []
        for (mod, attr), (d, base) in self.tables.items():
            for kid, v0 in base.items():
                p = self.host_prims[kid]
                tag = f"{mod}.{attr}[{getattr(p, 'name', '?')}]"
                if tag in ignore:
                    continue
                v1 = d.get(p, _MISSING)
                if v1 is v0:
                    continue
                out.append({"where": tag, "kind": "deleted" if v1 is _MISSING else "rebound", "now_from_jax2onnx": _from_jax2onnx(v1) if v1 is not _MISSING else False, "now": _short(v1) if v1 is not _MISSING else None})
            # entries the converter adds for a primitive the host owns
            try:
                cur = list(d.items())
            except Exception:
                cur = []
            for k, v1 in cur:
                if id(k) in self.host_prims and id(k) not in base and _from_jax2onnx(v1):
                    tag = f"{mod}.{attr}[{getattr(k, 'name', '?')}]"
                    if tag not in ignore:
                        out.append({"where": tag, "kind": "added", "now_from_jax2onnx": True, "now": _short(v1)})
        for (kid, a), v0 in self.prim_attrs.items():
            p = self.host_prims[kid]
            tag = f"<Primitive {getattr(p, 'name', '?')}>.{a}"
            if tag in ignore:
                continue
            v1 = vars(p).get(a, _MISSING)
            if v1 is v0:
                continue
            # bound methods are re-created on access only through descriptors; vars() holds the stored object
            if isinstance(v0, types.MethodType) and isinstance(v1, types.MethodType) and v0.__func__ is v1.__func__ and v0.__self__ is v1.__self__:
                continue
            out.append({"where": tag, "kind": "deleted" if v1 is _MISSING else "rebound", "now_from_jax2onnx": _from_jax2onnx(v1) if v1 is not _MISSING else False, "now": _short(v1) if v1 is not _MISSING else None})
        out.sort(key=lambda d_: (d_["where"], d_["kind"]))
        return out

"""Worker-side runtime: boots jax2onnx inside the fresh interpreter under the
plan's schedule parameters and offers the conversion helpers the property
modules share."""
from __future__ import annotations

import gc
import importlib
import logging
import os
import pkgutil
import random
import sys
from typing import Any

from sim.common import sub_seed

_BOOTED = False


class SimFault(RuntimeError):
    """Injected synchronous failure (an ordinary exception)."""


class SimInterrupt(KeyboardInterrupt):
    """Injected interrupt-class failure (not caught by `except Exception`)."""


def exc_class(name: str) -> type:
    return SimInterrupt if name == "SimInterrupt" else SimFault


def plugin_module_names() -> list[str]:
    import jax2onnx.plugins as pl

    root = os.path.dirname(pl.__file__)
    names: list[str] = []
    for dirpath, dirnames, filenames in os.walk(root):
        dirnames.sort()
        for fn in sorted(filenames):
            if not fn.endswith(".py") or fn in ("plugin_system.py", "__init__.py"):
                continue
            rel = os.path.relpath(os.path.join(dirpath, fn), root)[:-3]
            names.append("jax2onnx.plugins." + rel.replace(os.sep, "."))
    return sorted(names)


def boot(plan: dict) -> None:
    """Import jax2onnx and all plugins.  `import_perm_seed` (optional) makes
    the plugin modules load in a seeded permutation before the library's own
    discovery runs (equivalent to a user importing plugin modules first or a
    different directory order)."""
    global _BOOTED
    if _BOOTED:
        return
    logging.disable(logging.CRITICAL)
    if plan.get("gc_disabled", True):
        gc.disable()
    import jax2onnx  # noqa: F401
    from jax2onnx.plugins import plugin_system as ps

    perm_seed = plan.get("import_perm_seed")
    if perm_seed is not None:
        names = plugin_module_names()
        random.Random(sub_seed("import", perm_seed)).shuffle(names)
        frac = plan.get("import_perm_frac", 1.0)
        names = names[: max(1, int(len(names) * frac))]
        for n in names:
            try:
                importlib.import_module(n)
            except Exception:
                pass
    ps.import_all_plugins()
    _BOOTED = True


def to_onnx_program(prog: Any, **over: Any) -> Any:
    from jax2onnx import to_onnx

    kw = prog.to_onnx_kwargs()
    kw.update(over)
    return to_onnx(prog.fn, list(prog.inputs), **kw)


def exc_name(exc: BaseException) -> str:
    return type(exc).__name__

"""Shared helpers: seed derivation, canonical JSON, digests, exit codes.

Nothing in here reads a clock or draws from a PRNG on a logging path.
"""
from __future__ import annotations

import hashlib
import json
import os
import random
from typing import Any

EXIT_OK = 0
EXIT_VIOLATION = 1
EXIT_HARNESS = 2

VERIF_DIR = os.path.dirname(os.path.dirname(os.path.abspath(__file__)))
PYTHON = os.environ.get("VERIF_PYTHON", "/venv/bin/python")


def repo_dir() -> str:
    return os.environ.get("VERIF_REPO", "/repo")


def verif_seed() -> int:
    try:
        return int(os.environ.get("VERIF_SEED", "0"))
    except ValueError:
        return 0


def sub_seed(*parts: Any) -> int:
    """Derive an independent 64-bit seed from a path of names."""
    h = hashlib.sha256("/".join(str(p) for p in parts).encode()).digest()
    return int.from_bytes(h[:8], "big")


def rng(*parts: Any) -> random.Random:
    return random.Random(sub_seed(*parts))


def canon(obj: Any) -> str:
    return json.dumps(obj, sort_keys=True, separators=(",", ":"), default=_default)


def _default(o: Any) -> Any:
    try:
        import numpy as np

        if isinstance(o, np.generic):
            return o.item()
        if isinstance(o, np.ndarray):
            return o.tolist()
    except Exception:
        pass
    if isinstance(o, (set, frozenset)):
        return sorted(o, key=str)
    if isinstance(o, bytes):
        return o.hex()
    return repr(o)


def digest(obj: Any) -> str:
    if isinstance(obj, bytes):
        return hashlib.sha256(obj).hexdigest()[:16]
    return hashlib.sha256(canon(obj).encode()).hexdigest()[:16]


class EventLog:
    """Append-only JSON-lines log; the run digest is sha256 of the text."""

    def __init__(self) -> None:
        self.lines: list[str] = []

    def add(self, **ev: Any) -> None:
        self.lines.append(canon(ev))

    def digest(self) -> str:
        return hashlib.sha256("\n".join(self.lines).encode()).hexdigest()[:16]


def write_json(path: str, obj: Any) -> None:
    tmp = f"{path}.tmp.{os.getpid()}"
    os.makedirs(os.path.dirname(path) or ".", exist_ok=True)
    with open(tmp, "w") as f:
        json.dump(obj, f, indent=1, sort_keys=True, default=_default)
    os.replace(tmp, path)


def read_json(path: str) -> Any:
    with open(path) as f:
        return json.load(f)

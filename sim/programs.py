"""Program corpus for the simulator: the repo's own registry of testcases plus
hand-written fixtures.  Only real code: programs are materialised from
PLUGIN_REGISTRY / EXAMPLE_REGISTRY metadata the same way tests/t_generator.py
does (shape variants, f32/f64 variants, seeded inputs) but without importing
anything from /repo/tests.
"""
from __future__ import annotations

import hashlib
import inspect
from dataclasses import dataclass, field
from typing import Any, Callable

import numpy as np


@dataclass
class Program:
    pid: str
    fn: Any
    inputs: list  # to_onnx `inputs`
    kwargs: dict  # remaining to_onnx kwargs (input_params, opset, x64, layouts, names, ...)
    x64: bool
    concrete: list  # [(shape, dtype)] for numeric inputs (may be None when unknown)
    input_values: list | None
    rtol: float
    atol: float
    skip_numeric: bool
    meta: dict = field(default_factory=dict)

    def make_inputs(self, seed: int = 0) -> list:
        if self.input_values is not None:
            return [_runtime_cast(v, self.x64) for v in self.input_values]
        rs = np.random.default_rng(
            int(hashlib.sha256(f"{self.pid}|{seed}".encode()).hexdigest()[:16], 16)
        )
        out = []
        for shape, dtype in self.concrete:
            out.append(_rand(rs, shape, dtype, self.x64))
        return out

    def to_onnx_kwargs(self) -> dict:
        kw = dict(self.kwargs)
        kw["enable_double_precision"] = self.x64
        return kw


def _runtime_cast(value: Any, x64: bool) -> np.ndarray:
    arr = np.asarray(value)
    dtype = arr.dtype
    if not x64:
        if dtype == np.float64:
            dtype = np.float32
        elif dtype == np.int64:
            dtype = np.int32
    elif np.issubdtype(dtype, np.floating):
        dtype = np.float64
    return np.asarray(value, dtype=dtype)


def _rand(rs: np.random.Generator, shape: tuple, dtype: Any, x64: bool) -> np.ndarray:
    dtype = np.dtype(dtype)
    size = tuple(shape) if shape else ()
    if np.issubdtype(dtype, np.floating):
        raw = rs.standard_normal(size=size) * 0.25
    elif np.issubdtype(dtype, np.integer):
        raw = rs.integers(0, 5, size=size)
    elif dtype == np.bool_:
        raw = rs.random(size=size) > 0.5
    elif np.issubdtype(dtype, np.complexfloating):
        raw = rs.standard_normal(size=size) + 1j * rs.standard_normal(size=size)
    else:
        raw = rs.standard_normal(size=size)
    arr = np.array(raw)
    target = np.float64 if (x64 and np.issubdtype(dtype, np.floating)) else dtype
    return arr.astype(target)


# --------------------------------------------------------------------------
# registry
# --------------------------------------------------------------------------

_PARAMS: dict[str, dict] | None = None
_ORDER: list[str] = []


def _expand(entry: dict) -> list[dict]:
    """Port of tests/t_generator.generate_test_params (variants only)."""
    import jax.numpy as jnp

    if entry.get("callable") is None:
        return []
    entry = dict(entry)
    callable_obj = entry.get("callable")
    factory = callable_obj if getattr(callable_obj, "__jax2onnx_factory__", False) else None
    shapes = entry.get("input_shapes", []) or []
    has_dyn = any(isinstance(s, (list, tuple)) and "B" in s for s in shapes)
    inter: list[dict] = []
    if has_dyn:
        d = dict(entry)
        d["testcase"] = d["testcase"] + "_dynamic"
        inter.append(d)
        if not entry.get("run_only_dynamic", False):
            c = dict(entry)
            c["input_shapes"] = [
                tuple(3 if dim == "B" else dim for dim in s) if isinstance(s, (list, tuple)) else s
                for s in shapes
            ]
            inter.append(c)
    else:
        inter.append(dict(entry))

    def _f64ify(p: dict) -> None:
        if p.get("input_values") is not None:
            p["input_values"] = [
                np.array(v, dtype=np.float64)
                if np.issubdtype(np.array(v).dtype, np.floating)
                else np.array(v)
                for v in p["input_values"]
            ]
        if p.get("input_dtypes") is not None:
            p["input_dtypes"] = [
                (np.float64 if np.issubdtype(dt, np.floating) else dt) for dt in p["input_dtypes"]
            ]

    final: list[dict] = []
    for base in inter:
        force = bool(base.get("enable_double_precision", False))
        name = str(base.get("testcase", ""))
        only64 = base.get("run_only_f64_variant", False) or force or name.endswith("_f64")
        only32 = base.get("run_only_f32_variant", False)
        no64 = base.get("disable_float64_test", False)
        if only64:
            p = dict(base)
            p["_x64"] = True
            if factory is not None:
                p["callable"] = factory.with_dtype(jnp.float64)
            _f64ify(p)
            final.append(p)
        else:
            p = dict(base)
            p["_x64"] = force
            if factory is not None:
                p["callable"] = factory.with_dtype(jnp.float64 if force else jnp.float32)
            final.append(p)
            if not no64 and not only32:
                q = dict(base)
                q["testcase"] = q["testcase"] + "_f64"
                q["_x64"] = True
                if factory is not None:
                    q["callable"] = factory.with_dtype(jnp.float64)
                _f64ify(q)
                final.append(q)
    return final


def load_registry() -> list[str]:
    """Return ordered program ids (stable order: sorted)."""
    global _PARAMS, _ORDER
    if _PARAMS is not None:
        return _ORDER
    from jax2onnx.plugins import plugin_system as ps

    ps.import_all_plugins()
    items = [
        {**plugin.metadata, "jaxpr_primitive": name}
        for name, plugin in ps.PLUGIN_REGISTRY.items()
        if hasattr(plugin, "metadata")
    ]
    items += [dict(md) for md in ps.EXAMPLE_REGISTRY.values()]
    params: dict[str, dict] = {}
    for md in items:
        for tc in md.get("testcases", []) or []:
            tc = dict(tc)
            tc["context"] = md.get("context", "default")
            tc["component"] = md.get("component", "default")
            try:
                variants = _expand(tc)
            except Exception:
                continue
            for v in variants:
                pid = f"{v['context']}::{v['component']}::{v['testcase']}"
                if pid in params:
                    continue
                params[pid] = v
    _PARAMS = params
    _ORDER = sorted(params)
    return _ORDER


def _instantiate(obj: Any, x64: bool) -> Any:
    import jax

    if not hasattr(obj, "instantiate"):
        return obj
    # scoped override only: writing the effective value back with config.update would change the
    # user's GLOBAL flag when the history is inside a jax.enable_x64(...) block (harness false alarm
    # C13|x64_flag_after_ctx under VERIF_SEED=1)
    with jax.enable_x64(bool(x64)):
        return obj.instantiate()


def materialize(pid: str) -> Program:
    if pid.startswith("fx::"):
        from sim.fixtures import build as fx_build

        return fx_build(pid)
    import jax
    import jax.numpy as jnp

    load_registry()
    assert _PARAMS is not None
    tp = _PARAMS[pid]
    x64 = bool(tp.get("_x64", False))
    fn = _instantiate(tp["callable"], x64)
    vals = tp.get("input_values")
    shapes = tp.get("input_shapes")
    dtypes = tp.get("input_dtypes")
    specs: list = []
    concrete: list = []
    if shapes is not None:
        if dtypes:
            for s, dt in zip(shapes, dtypes):
                st = tuple(s) if isinstance(s, (list, tuple)) else (s,)
                if x64 and np.issubdtype(dt, np.floating):
                    dt = jnp.float64
                specs.append(jax.ShapeDtypeStruct(st, dt))
        else:
            for s in shapes:
                specs.append(tuple(s) if isinstance(s, (list, tuple)) else (s,))
        dts = list(dtypes) if dtypes else [np.float64 if x64 else np.float32] * len(shapes)
        sym: dict[str, int] = {}
        for s, dt in zip(shapes, dts):
            st = tuple(s) if isinstance(s, (list, tuple)) else (s,)
            concrete.append((tuple(sym.setdefault(d, 2) if isinstance(d, str) else d for d in st), dt))
    elif vals is not None:
        for v in vals:
            a = np.array(v)
            if x64 and np.issubdtype(a.dtype, np.floating):
                specs.append(jax.ShapeDtypeStruct(a.shape, jnp.float64))
            else:
                specs.append(jax.ShapeDtypeStruct(a.shape, a.dtype))
    else:
        sig = inspect.signature(fn)
        if sig.parameters:
            raise ValueError("no input_shapes/input_values")
    kwargs = dict(
        input_params=tp.get("input_params", {}) or {},
        model_name=tp["testcase"],
        opset=tp.get("opset_version", 23),
        inputs_as_nchw=tp.get("inputs_as_nchw"),
        outputs_as_nchw=tp.get("outputs_as_nchw"),
        input_names=tp.get("input_names"),
        output_names=tp.get("output_names"),
        normalization_mode=tp.get("normalization_mode", "auto"),
    )
    if x64:
        rtol = tp.get("rtol_f64", tp.get("rtol", 1e-7))
        atol = tp.get("atol_f64", tp.get("atol", 1e-7))
        rtol, atol = max(float(rtol), 1e-6), max(float(atol), 1e-8)
    else:
        rtol = tp.get("rtol_f32", tp.get("rtol", 1e-5))
        atol = tp.get("atol_f32", tp.get("atol", 1e-5))
        rtol, atol = max(float(rtol), 1e-3), max(float(atol), 1e-5)
    return Program(
        pid=pid,
        fn=fn,
        inputs=specs,
        kwargs=kwargs,
        x64=x64,
        concrete=concrete,
        input_values=list(vals) if vals else None,
        rtol=float(rtol),
        atol=float(atol),
        skip_numeric=bool(tp.get("skip_numeric_validation", False)),
        meta={"expected_funcs": tp.get("expected_number_of_function_instances")},
    )

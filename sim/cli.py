from __future__ import annotations

import importlib
import os
import sys


def main() -> int:
    args = sys.argv[1:]
    if not args:
        print("usage: check <ID> --tier quick|thorough | check replay <file>")
        return 2
    if args[0] == "replay":
        from sim import coordinator as co

        return co.replay_file(args[1])
    if args[0] == "selftest-determinism":
        from sim import selftest_determinism

        return selftest_determinism.main()
    prop = args[0]
    tier = os.environ.get("VERIF_TIER", "quick")
    if "--tier" in args:
        tier = args[args.index("--tier") + 1]
    mod = importlib.import_module("sim.props." + prop.lower())
    try:
        return int(mod.main(tier))
    except SystemExit:
        raise
    except BaseException as exc:  # never a verdict
        import traceback

        traceback.print_exc()
        print(f"HARNESS-ERROR property={prop} coordinator crashed: {type(exc).__name__}: {exc}")
        return 2


if __name__ == "__main__":
    sys.exit(main())

"""Fixture models and programs, written against the public API only.

Importing this module decorates the module-level targets (so they are part
of the converter's write set before any baseline snapshot is taken).
"""
from __future__ import annotations

from typing import Any, Callable

import equinox as eqx
import jax
import jax.numpy as jnp
import numpy as np
from flax import nnx
from jax import lax

from jax2onnx import onnx_function

from sim.programs import Program

# ---------------------------------------------------------------------------
# weights helpers: deterministic, distinct per seed (confusing two instances
# changes the output by far more than any tolerance)
# ---------------------------------------------------------------------------


def W(shape: tuple, seed: int, dtype=np.float32) -> np.ndarray:
    n = int(np.prod(shape)) if shape else 1
    base = (np.arange(n, dtype=np.float64) * 0.37 + seed * 1.618) % 2.0 - 1.0
    return (base.reshape(shape) * (1.0 + 0.25 * seed)).astype(dtype)


# ---------------------------------------------------------------------------
# decorated targets (module level, decorated at import)
# ---------------------------------------------------------------------------


@onnx_function
def fn_sin2(x):
    return jnp.sin(x) * 2.0


@onnx_function
def fn_scale(x, factor: float = 2.0):
    return x * factor + 1.0


@onnx_function
def fn_gain(x, gain=1):
    """The TYPE of the keyword matters (int32 arithmetic wraps, float does not): gain=1, 1.0 and True
    are equal and hash-equal in Python but are three different functions."""
    xi = (x * 8.0).astype(jnp.int32)
    z = xi * gain * 400000000
    return z.astype(x.dtype) * 1e-9


@onnx_function
def Relu(x):
    """Deliberately NAMED like a layout-agnostic ONNX operator; it is neither Relu nor layout-agnostic."""
    e = jnp.exp(x - jnp.max(x, axis=-1, keepdims=True))
    return e / jnp.sum(e, axis=-1, keepdims=True)


@onnx_function(name="Identity")
class NamedIdentity(nnx.Module):
    """A decorated class exported under the name of an ONNX operator; reverses the last axis."""

    def __init__(self, d: int, seed: int):
        self.w = nnx.Param(jnp.asarray(0.5 + 0.25 * W((d,), seed)))

    def __call__(self, x):
        return jnp.cumsum(x, axis=-1) * jnp.mean(self.w.value)


@onnx_function
def fn_pick(a, b, use_a: bool = False):
    """Two tensor operands; with use_a=False the FIRST operand is never read by the body."""
    return (a * 2.0 + b) if use_a else b * 3.0


@onnx_function
def fn_shift(x, b):
    """Binary target: the second positional argument is DATA (a run-time input of the function),
    even when a call site happens to pass a compile-time constant."""
    return jnp.tanh(x) + b


SHIFT_CONSTS = {"c1": np.array([1.0, 2.0, 3.0, -1.5], np.float32), "c2": np.array([-5.0, 0.5, 7.0, 0.25], np.float32)}


@onnx_function
def fn_takes_det(x, deterministic=True):
    """Plain-function target that accepts a runtime parameter its callers do not forward."""
    return jnp.where(deterministic, x * 2.0, x * 0.5)


@onnx_function
def fn_no_det(x):
    """Plain-function target that does not know that parameter."""
    return x * 3.0 - 1.0


@onnx_function
def fn_gate(x, double=False, negate=False):
    """Two runtime flags (exposed through input_params)."""
    y = jnp.where(double, x * 2.0, x)
    return jnp.where(negate, -y, y)


@onnx_function
class Block(nnx.Module):
    def __init__(self, din: int, dout: int, seed: int, act: str = "gelu"):
        self.linear = nnx.Linear(din, dout, rngs=nnx.Rngs(0))
        self.linear.kernel.value = jnp.asarray(W((din, dout), seed))
        self.linear.bias.value = jnp.asarray(W((dout,), seed + 100))
        self.act = act

    def __call__(self, x):
        y = self.linear(x)
        if self.act == "gelu":
            return nnx.gelu(y)
        if self.act == "relu":
            return nnx.relu(y)
        return jnp.tanh(y)


@onnx_function
class Inner(nnx.Module):
    def __init__(self, d: int, seed: int):
        self.norm = nnx.LayerNorm(d, rngs=nnx.Rngs(0))
        self.norm.scale.value = jnp.asarray(1.0 + 0.1 * W((d,), seed))
        self.lin = nnx.Linear(d, d, rngs=nnx.Rngs(0))
        self.lin.kernel.value = jnp.asarray(W((d, d), seed + 7))

    def __call__(self, x):
        return self.lin(self.norm(x))


@onnx_function
class Outer(nnx.Module):
    def __init__(self, d: int, seed: int):
        self.a = Inner(d, seed)
        self.b = Inner(d, seed + 1)

    def __call__(self, x):
        return self.b(self.a(x)) + x


@onnx_function(unique=True)
class UBlock(nnx.Module):
    def __init__(self, d: int, seed: int, flip: bool = False):
        self.lin = nnx.Linear(d, d, rngs=nnx.Rngs(0))
        self.lin.kernel.value = jnp.asarray(W((d, d), seed))
        self.lin.bias.value = jnp.asarray(W((d,), seed + 50))
        self.flip = flip

    def __call__(self, x):
        y = self.lin(x)
        return -y if self.flip else y


@onnx_function
class EqxBlock(eqx.Module):
    weight: jax.Array
    bias: jax.Array
    slope: float = eqx.field(static=True)

    def __init__(self, d: int, seed: int, slope: float = 0.1):
        self.weight = jnp.asarray(W((d, d), seed))
        self.bias = jnp.asarray(W((d,), seed + 3))
        self.slope = slope

    def __call__(self, x):
        y = x @ self.weight + self.bias
        return jnp.where(y > 0, y, self.slope * y)


@onnx_function
class PlainScale:
    """Plain python class holding numpy state."""

    def __init__(self, d: int, seed: int):
        self.w = W((d,), seed)
        self.shift = float(seed)

    def __call__(self, x):
        return x * jnp.asarray(self.w) + self.shift


@onnx_function
class InnerFlags(nnx.Module):
    """Takes two runtime flags that callers do not forward explicitly."""

    def __init__(self, seed: int):
        self.lin = nnx.Linear(4, 4, rngs=nnx.Rngs(0))
        self.lin.kernel.value = jnp.asarray(W((4, 4), seed))

    def __call__(self, x, deterministic: bool = True, frozen: bool = True):
        y = self.lin(x)
        y = jnp.where(deterministic, y, y * 0.5)
        return jnp.where(frozen, y, y + 1.0)


@onnx_function
class OuterFlags(nnx.Module):
    def __init__(self, seed: int):
        self.inner = InnerFlags(seed)

    def __call__(self, x, deterministic: bool = True, frozen: bool = True):
        return self.inner(x) * 2.0


@onnx_function
class RecWrap(nnx.Module):
    """B of the re-entrant nesting A -> B -> A'."""

    def __init__(self, inner):
        self.inner = inner

    def __call__(self, x):
        return self.inner(x) + 1.0


@onnx_function
class RecScale(nnx.Module):
    """A: may hold a RecWrap child that holds another RecScale (the same decorated
    target is entered again while its own body is still being lowered)."""

    def __init__(self, d: int, seed: int, depth: int = 0, via_wrap: bool = True):
        self.w = nnx.Param(jnp.asarray(0.5 + 0.25 * W((d,), seed)))
        child = None
        if depth > 0:
            child = RecScale(d, seed + 1, depth - 1, via_wrap)
            if via_wrap:
                child = RecWrap(child)
        self.child = child

    def __call__(self, x):
        y = x * self.w.value
        return self.child(y) if self.child is not None else y


@onnx_function(unique=True)
class UView(eqx.Module):
    """unique=True target whose parameter is a LARGE, NON-CONTIGUOUS numpy leaf (a transposed view, as left
    behind by porting an (out, in) checkpoint); twins differ in ONE element in the middle of the array."""

    w: np.ndarray

    def __init__(self, seed: int, mid: float = 0.0):
        base = (W((48, 48), seed) * 0.05).astype(np.float32)
        base[24, 20] += np.float32(mid)
        self.w = base.T  # Fortran-ordered view of `base`

    def __call__(self, x):
        h = jnp.concatenate([x] * 12, axis=-1)
        return (h @ jnp.asarray(self.w))[..., :4]


@onnx_function
class Passthrough(nnx.Module):
    """A decorated module whose body hands its argument straight back (e.g. a disabled adapter)."""

    def __init__(self, d: int, seed: int):
        self.enabled = seed % 2 == 0
        self.w = nnx.Param(jnp.asarray(0.5 + 0.25 * W((d,), seed)))

    def __call__(self, x):
        return x * self.w.value if self.enabled else x


@onnx_function
class TMean(nnx.Module):
    """transpose -> mean(keepdims) -> transpose inside a function body (an optimizer rewrite pattern)."""

    def __init__(self, d: int, seed: int):
        self.w = nnx.Param(jnp.asarray(0.5 + 0.25 * W((d,), seed)))

    def __call__(self, x):
        m = jnp.transpose(jnp.mean(jnp.transpose(x, (1, 0)), axis=0, keepdims=True), (1, 0))
        return x * self.w.value + m


@onnx_function
class BaseAffine(nnx.Module):
    def __init__(self, d: int, seed: int):
        self.w = nnx.Param(jnp.asarray(0.5 + 0.25 * W((d,), seed)))

    def __call__(self, x):
        return x * self.w.value


class DerivedAffine(BaseAffine):
    """Undecorated subclass of a decorated class; overrides __call__ and delegates to super()."""

    def __init__(self, d: int, seed: int):
        super().__init__(d, seed)
        self.shift = 0.25 * seed

    def __call__(self, x):
        return super().__call__(x) + self.shift


class LateBlock(nnx.Module):
    """Decorated late (by a plan operation), never at import."""

    def __init__(self, d: int, seed: int):
        self.lin = nnx.Linear(d, d, rngs=nnx.Rngs(0))
        self.lin.kernel.value = jnp.asarray(W((d, d), seed))

    def __call__(self, x):
        return jnp.tanh(self.lin(x))


class KwBlock(nnx.Module):
    def __init__(self, d: int, seed: int):
        self.lin = nnx.Linear(d, d, rngs=nnx.Rngs(0))
        self.lin.kernel.value = jnp.asarray(W((d, d), seed))

    def __call__(self, x, *, scale: float = 1.0, deterministic: bool = True):
        y = self.lin(x) * scale
        return y if deterministic else y * 0.5


KwBlock = onnx_function(KwBlock)


class Net(nnx.Module):
    """Undecorated parent with decorated children."""

    def __init__(self, d: int = 4):
        self.b1 = Block(d, d, 1)
        self.b2 = Block(d, d, 2, act="relu")
        self.norm = nnx.LayerNorm(d, rngs=nnx.Rngs(0))

    def __call__(self, x):
        return self.norm(self.b2(self.b1(x)))


@jax.checkpoint
def ckpt_helper(x):
    # a rematerialised block that calls a decorated function: its trace is cached by JAX
    return fn_sin2(x) * 0.5 + x


@jax.jit
def jit_helper_cold(x):
    return jnp.tanh(x) * 2.0


@jax.jit
def jit_helper_cold2(x):
    return jnp.exp(-x * x)


# ---------------------------------------------------------------------------
# residual conv / transpose-forest programs (multi-member optimizer node sets)
# ---------------------------------------------------------------------------


class ResConv(nnx.Module):
    def __init__(self, c: int = 3, seed: int = 1):
        self.c1 = nnx.Conv(c, c, kernel_size=(3, 3), padding="SAME", rngs=nnx.Rngs(0))
        self.c1.kernel.value = jnp.asarray(W((3, 3, c, c), seed) * 0.3)
        self.c2 = nnx.Conv(c, c, kernel_size=(3, 3), padding="SAME", rngs=nnx.Rngs(0))
        self.c2.kernel.value = jnp.asarray(W((3, 3, c, c), seed + 1) * 0.3)
        self.c3 = nnx.Conv(c, c, kernel_size=(1, 1), padding="SAME", rngs=nnx.Rngs(0))
        self.c3.kernel.value = jnp.asarray(W((1, 1, c, c), seed + 2) * 0.3)

    def __call__(self, x):
        a = nnx.relu(self.c1(x))
        b = self.c2(a)
        c = self.c3(x)
        return nnx.relu(a + b + c) + x


class ChanAttn(nnx.Module):
    def __init__(self, c: int = 4, seed: int = 3):
        self.conv = nnx.Conv(c, c, kernel_size=(3, 3), padding="SAME", rngs=nnx.Rngs(0))
        self.conv.kernel.value = jnp.asarray(W((3, 3, c, c), seed) * 0.2)
        self.fc1 = nnx.Linear(c, c, rngs=nnx.Rngs(0))
        self.fc1.kernel.value = jnp.asarray(W((c, c), seed + 1))
        self.fc2 = nnx.Linear(c, c, rngs=nnx.Rngs(0))
        self.fc2.kernel.value = jnp.asarray(W((c, c), seed + 2))

    def __call__(self, x):
        y = self.conv(x)
        s = jnp.mean(y, axis=(1, 2))
        g = nnx.sigmoid(self.fc2(nnx.relu(self.fc1(s))))
        return y * g[:, None, None, :] + x


def transpose_forest(x):
    # x: (N,H,W,C); builds several transposes feeding elementwise ops
    a = jnp.transpose(x, (0, 3, 1, 2))
    b = jnp.transpose(x * 2.0, (0, 3, 1, 2))
    c = jnp.transpose(jnp.tanh(x), (0, 3, 1, 2))
    s = a + b
    t = s * c + a
    u = jnp.transpose(t, (0, 2, 3, 1))
    v = jnp.transpose(s - c, (0, 2, 3, 1))
    return u + v, jnp.transpose(t + b, (0, 2, 3, 1))


def reshape_chain(x):
    a = jnp.reshape(x, (2, 12))
    b = jnp.reshape(a, (4, 6))
    c = jnp.reshape(b, (2, 3, 4))
    d = jnp.transpose(c, (2, 0, 1))
    e = jnp.transpose(d, (1, 2, 0))
    return e + x, jnp.reshape(e * 2, (24,))


# ---------------------------------------------------------------------------
# control flow
# ---------------------------------------------------------------------------


def cf_cond(x):
    return lax.cond(jnp.sum(x) > 0, lambda v: jnp.sin(v) + 1.0, lambda v: jnp.cos(v) - 1.0, x)


def cf_fori(x):
    return lax.fori_loop(0, 4, lambda i, v: v * 0.5 + jnp.tanh(v), x)


def cf_while(x):
    def c(s):
        i, v = s
        return i < 3

    def b(s):
        i, v = s
        return i + 1, v * 0.9 + 0.1

    return lax.while_loop(c, b, (0, x))[1]


def cf_scan(x):
    def step(c, xs):
        c2 = c * 0.5 + xs
        return c2, jnp.tanh(c2)

    c, ys = lax.scan(step, jnp.zeros_like(x[0]), x)
    return c, ys


def cf_nested(x):
    def body(i, v):
        return lax.cond(i < 2, lambda u: u + jnp.sin(u), lambda u: u * 0.5, v)

    return lax.fori_loop(0, 3, body, x)


def cf_fn_in_scan(x):
    def step(c, xs):
        c2 = fn_sin2(c) + xs
        return c2, c2

    return lax.scan(step, jnp.zeros_like(x[0]), x)[1]


# ---------------------------------------------------------------------------
# programs
# ---------------------------------------------------------------------------


def _p(name: str, fn: Any, shapes: list, *, x64: bool = False, dtypes: list | None = None, **kw: Any) -> Program:
    dts = dtypes or [np.float64 if x64 else np.float32] * len(shapes)
    concrete = []
    sym: dict[str, int] = {}
    for s, dt in zip(shapes, dts):
        concrete.append((tuple(sym.setdefault(d, 2) if isinstance(d, str) else d for d in s), dt))
    if dtypes:
        inputs = [jax.ShapeDtypeStruct(tuple(s), dt) for s, dt in zip(shapes, dts)]
    else:
        inputs = [tuple(s) for s in shapes]
    kwargs = dict(input_params=kw.pop("input_params", {}), model_name=name.replace("::", "_"), opset=kw.pop("opset", 23))
    kwargs.update(kw)
    return Program(
        pid=name,
        fn=fn,
        inputs=inputs,
        kwargs=kwargs,
        x64=x64,
        concrete=concrete,
        input_values=None,
        rtol=1e-6 if x64 else 1e-3,
        atol=1e-8 if x64 else 1e-5,
        skip_numeric=False,
    )


_SINGLETONS: dict[str, Any] = {}


def _single(key: str, ctor: Callable[[], Any]) -> Any:
    if key not in _SINGLETONS:
        _SINGLETONS[key] = ctor()
    return _SINGLETONS[key]


def _two_blocks_same():
    b = _single("blk_same", lambda: Block(4, 4, 5))
    return lambda x: b(b(x))


def _two_blocks_diff():
    b1 = _single("blk_d1", lambda: Block(4, 4, 5))
    b2 = _single("blk_d2", lambda: Block(4, 4, 6))
    return lambda x: b2(b1(x))


BUILDERS: dict[str, Callable[[], Program]] = {
    "flat": lambda: _p("flat", lambda x: jnp.tanh(x) + 1.0, [(3, 4)]),
    "flat_f64": lambda: _p("flat_f64", lambda x: jnp.tanh(x) * 2.0 + jnp.sum(x), [(3, 4)], x64=True),
    "net": lambda: _p("net", _single("net", lambda: Net(4)), [("B", 4)]),
    "outer": lambda: _p("outer", _single("outer", lambda: Outer(4, 3)), [(2, 4)]),
    "fn_boundary": lambda: _p("fn_boundary", lambda x: fn_sin2(x) + fn_sin2(x * 0.5), [(3, 4)]),
    "fn_kw": lambda: _p("fn_kw", lambda x: fn_scale(x, factor=3.0) + fn_scale(x), [(3, 4)]),
    "eqx_block": lambda: _p("eqx_block", _single("eqx_block", lambda: EqxBlock(4, 2)), [(4,)]),
    "plain": lambda: _p("plain", _single("plain", lambda: PlainScale(4, 3)), [(2, 4)]),
    "ublock_pair": lambda: _p(
        "ublock_pair",
        (lambda a, b: (lambda x: b(a(x))))(_single("ub1", lambda: UBlock(4, 1)), _single("ub2", lambda: UBlock(4, 1, flip=True))),
        [(2, 4)],
    ),
    "two_same": lambda: _p("two_same", _two_blocks_same(), [(2, 4)]),
    "two_diff": lambda: _p("two_diff", _two_blocks_diff(), [(2, 4)]),
    "kwblock": lambda: _p("kwblock", (lambda m: (lambda x: m(x, scale=2.0) + m(x, scale=3.0)))(_single("kwb", lambda: KwBlock(4, 4))), [(2, 4)]),
    "late": lambda: _p("late", (lambda m: (lambda x: m(x) + 1.0))(_single("late", lambda: LateBlock(4, 9))), [(2, 4)]),
    "cf_fn_in_scan": lambda: _p("cf_fn_in_scan", cf_fn_in_scan, [(4, 3)]),
    "autoflags": lambda: _p("autoflags", (lambda m: (lambda x, **kw: m(x) + 1.0))(_single("outerflags", lambda: OuterFlags(3))), [(2, 4)], input_params={"deterministic": True, "frozen": True}),
    "jit_cold": lambda: _p("jit_cold", lambda x: jit_helper_cold(x) + 1.0, [(3, 4)]),
    "jit_cold2": lambda: _p("jit_cold2", lambda x: jit_helper_cold2(x) * 3.0, [(5,)]),
    "resconv_nchw": lambda: _p("resconv_nchw", _single("resconv", lambda: ResConv(3, 1)), [(1, 6, 6, 3)], inputs_as_nchw=[0], outputs_as_nchw=[0]),
    "resconv": lambda: _p("resconv", _single("resconv", lambda: ResConv(3, 1)), [("B", 6, 6, 3)]),
    "chanattn_nchw": lambda: _p("chanattn_nchw", _single("chanattn", lambda: ChanAttn(4, 3)), [(2, 5, 5, 4)], inputs_as_nchw=[0], outputs_as_nchw=[0]),
    "transpose_forest": lambda: _p("transpose_forest", transpose_forest, [(1, 3, 4, 2)]),
    "reshape_chain": lambda: _p("reshape_chain", reshape_chain, [(2, 3, 4)]),
    "cf_cond": lambda: _p("cf_cond", cf_cond, [(3,)]),
    "cf_fori": lambda: _p("cf_fori", cf_fori, [(3,)]),
    "cf_while": lambda: _p("cf_while", cf_while, [(3,)]),
    "cf_scan": lambda: _p("cf_scan", cf_scan, [(5, 3)]),
    "cf_nested": lambda: _p("cf_nested", cf_nested, [(3,)]),
    "cf_fn_in_scan": lambda: _p("cf_fn_in_scan", cf_fn_in_scan, [(4, 3)]),
    "fn_boundary_f64": lambda: _p("fn_boundary_f64", lambda x: fn_sin2(x) * fn_sin2(x + 1.0), [(3, 4)], x64=True),
}


# ---------------------------------------------------------------------------
# programs whose live instances are updated IN PLACE between exports (C14: the
# request made after the update must not depend on the export made before it)
# ---------------------------------------------------------------------------

def _twins_unique():
    a = _single("ut_a", lambda: UBlock(4, 1))
    b = _single("ut_b", lambda: UBlock(4, 1))
    return lambda x: b(a(x)) + a(x)


def _twins_plain():
    a = _single("bt_a", lambda: Block(4, 4, 1))
    b = _single("bt_b", lambda: Block(4, 4, 1))
    return lambda x: b(a(x)) + a(x)


# programs with DEAD equations (jaxprs are not dead-code-eliminated, so the unused node reaches the
# optimizer) that read the intermediate value of a pattern an optimizer pass rewrites
def _dead_cast(x):
    wide = x.astype(jnp.int32)
    _peak = jnp.max(wide)  # noqa: F841  (unused on purpose)
    return wide.astype(jnp.int16) + jnp.int16(1)


def _dead_transpose(x):
    t = jnp.transpose(x, (1, 0))
    _d = jnp.sum(t)  # noqa: F841
    return jnp.transpose(t, (1, 0)) * 2.0


def _dead_reshape(x):
    r = jnp.reshape(x, (2, 6))
    _d = jnp.max(r)  # noqa: F841
    return jnp.reshape(r, (3, 4)) + 1.0


def _dead_swish(x):
    s = jax.nn.sigmoid(x)
    _d = jnp.sum(s)  # noqa: F841
    return x * s


def _dead_rsqrt(x):
    r = lax.rsqrt(x * x + 2.0)
    _d = jnp.min(r)  # noqa: F841
    return x * r


def _dead_chain(x):
    a = jnp.tanh(x)
    _d = jnp.sum(jnp.exp(a) * 2.0)  # noqa: F841  (a dead chain of three nodes)
    return a + 1.0


def _dead_fn_call():
    blk = _single("dead_fn_blk", lambda: Block(4, 4, 3))
    aux = _single("dead_fn_aux", lambda: Block(4, 4, 4, act="relu"))

    def f(x):
        _aux = aux(x) + fn_sin2(x)  # noqa: F841  (an auxiliary head that is evaluated but not returned)
        return blk(x) * 2.0

    return f


BUILDERS["dead_fn_call"] = lambda: _p("dead_fn_call", _dead_fn_call(), [(2, 4)])
def _tmean_top(x):
    # transpose -> mean(keepdims) -> transpose at the top level of the main graph (optimizer pass 2 rewrites it)
    return jnp.transpose(jnp.mean(jnp.transpose(x, (0, 3, 1, 2)), axis=(2, 3), keepdims=True), (0, 2, 3, 1)) + 1.0


def _tmean_with_fn():
    t = _single("tmean_fn_inst", lambda: TMean(4, 2))
    return lambda x: t(x) + jnp.transpose(jnp.mean(jnp.transpose(x, (1, 0)), axis=0, keepdims=True), (1, 0))


BUILDERS["tmean_top"] = lambda: _p("tmean_top", _tmean_top, [(1, 3, 3, 2)])
BUILDERS["tmean_with_fn"] = lambda: _p("tmean_with_fn", _tmean_with_fn(), [(3, 4)])
BUILDERS["dead_cast"] = lambda: _p("dead_cast", _dead_cast, [(3, 4)], dtypes=[np.int16])
BUILDERS["dead_transpose"] = lambda: _p("dead_transpose", _dead_transpose, [(3, 4)])
BUILDERS["dead_reshape"] = lambda: _p("dead_reshape", _dead_reshape, [(3, 4)])
BUILDERS["dead_swish"] = lambda: _p("dead_swish", _dead_swish, [(3, 4)])
BUILDERS["dead_rsqrt"] = lambda: _p("dead_rsqrt", _dead_rsqrt, [(3, 4)])
BUILDERS["dead_chain"] = lambda: _p("dead_chain", _dead_chain, [(3, 4)])
_GATHER_IDX = np.array([[0], [2]], np.int32)


def _gather_const_idx(x):
    # gather whose indices are a constant run through a foldable primitive chain
    i = lax.rev(jnp.asarray(_GATHER_IDX), (0,))
    dn = lax.GatherDimensionNumbers(offset_dims=(1,), collapsed_slice_dims=(0,), start_index_map=(0,))
    return lax.gather(x, i, dn, slice_sizes=(1, 4))


BUILDERS["gather_const_idx"] = lambda: _p("gather_const_idx", _gather_const_idx, [(5, 4)])
BUILDERS["implicit_fn_a"] = lambda: _p("implicit_fn_a", lambda x, **kw: fn_takes_det(x) + 1.0, [(2, 4)], input_params={"deterministic": True})
BUILDERS["implicit_fn_b"] = lambda: _p("implicit_fn_b", lambda x, **kw: fn_no_det(x) + 1.0, [(2, 4)], input_params={"deterministic": True})
_COND_W = (np.arange(12, dtype=np.float32).reshape(4, 3) * 0.1).astype(np.float32)


def _cond_dead_capture(x):
    # a value computed outside a cond and captured by a branch that does not use it for its result
    y = jnp.sin(x) @ _COND_W
    return lax.cond(jnp.sum(x) > 0, lambda a: (y + 1.0, a * 2.0)[1], lambda a: a - 1.0, x)


def _cond_unused_operand(x):
    y = jnp.sin(x) @ _COND_W
    return lax.cond(jnp.sum(x) > 0, lambda a, b: a * 2.0, lambda a, b: a - 1.0, x, y)


BUILDERS["cond_dead_capture"] = lambda: _p("cond_dead_capture", _cond_dead_capture, [(2, 4)])
BUILDERS["cond_unused_operand"] = lambda: _p("cond_unused_operand", _cond_unused_operand, [(2, 4)])
def _rope():
    return _single("eqx_rope", lambda: eqx.nn.RotaryPositionalEmbedding(embedding_size=8))


# an Equinox layer that keeps a process-wide table cache of its own (keyed by size and dtype)
BUILDERS["eqx_rope"] = lambda: _p("eqx_rope", _rope(), [(6, 8)])
BUILDERS["eqx_rope_long"] = lambda: _p("eqx_rope_long", _rope(), [(24, 8)])
BUILDERS["ckpt_fn"] = lambda: _p("ckpt_fn", lambda x: ckpt_helper(x) + 1.0, [(3, 4)])
BUILDERS["nchw_named"] = lambda: _p("nchw_named", _single("resconv", lambda: ResConv(3, 1)), [(1, 6, 6, 3)], inputs_as_nchw=[0], outputs_as_nchw=[0], input_names=["image"], output_names=["features"])
BUILDERS["params_named"] = lambda: _p("params_named", (lambda m: (lambda x, **kw: m(x) + 1.0))(_single("outerflags", lambda: OuterFlags(3))), [(2, 4)], input_params={"deterministic": True, "frozen": True}, input_names=["tokens"], output_names=["logits"])
BUILDERS["f64_named"] = lambda: _p("f64_named", lambda x, y: (jnp.tanh(x) * y, x - y), [(3, 4), (3, 4)], x64=True, input_names=["a", "b"], output_names=["p", "d"])
BUILDERS["named_io"] = lambda: _p("named_io", lambda x, y: (x + y, x * y), [(3, 4), (3, 4)], input_names=["lhs", "rhs"], output_names=["sum", "prod"])
# float16 programs (narrower than the export's default float)
BUILDERS["f16_elementwise"] = lambda: _p("f16_elementwise", lambda x, y: x * y + x, [(3, 4), (3, 4)], dtypes=[np.float16, np.float16])
BUILDERS["f16_cast_chain"] = lambda: _p("f16_cast_chain", lambda x: (jnp.tanh(x.astype(jnp.float32)) * 2.0).astype(jnp.float16) + x, [(3, 4)], dtypes=[np.float16])
BUILDERS["ublock_twins"] = lambda: _p("ublock_twins", _twins_unique(), [(2, 4)])
BUILDERS["block_twins"] = lambda: _p("block_twins", _twins_plain(), [(2, 4)])

# state -> (seed of instance a, seed of instance b); 0 is the constructor state
_TWIN_STATES = {0: (1, 1), 1: (1, 2), 2: (2, 2), 3: (2, 1)}
MUTABLE = {"ublock_twins": ("ut_a", "ut_b", "UBlock"), "block_twins": ("bt_a", "bt_b", "Block")}


def apply_state(name: str, state: int) -> None:
    """Set the weights of the program's two live instances in place (what a
    training step or a checkpoint load between two exports does)."""
    ka, kb, cls = MUTABLE[name]
    BUILDERS[name]()  # make sure the singletons exist
    for key, seed in zip((ka, kb), _TWIN_STATES[int(state)]):
        obj = _SINGLETONS[key]
        if cls == "UBlock":
            obj.lin.kernel.value = jnp.asarray(W((4, 4), seed))
            obj.lin.bias.value = jnp.asarray(W((4,), seed + 50))
        else:
            obj.linear.kernel.value = jnp.asarray(W((4, 4), seed))
            obj.linear.bias.value = jnp.asarray(W((4,), seed + 100))


@onnx_function
class BigConstBlock:
    """Holds a large numpy constant that ends up inside a function body."""

    def __init__(self, n: int, seed: int):
        self.w = W((n,), seed)

    def __call__(self, x):
        return x * jnp.asarray(self.w) + 1.0


def _big(name: str) -> Program:
    _, n_s, k_s, variant, seed_s = name.split("-")
    n, k, seed = int(n_s), int(k_s), int(seed_s)
    ws = [W((n,), seed + 11 * i) for i in range(k)]
    if variant == "tied":
        side = max(2, int(round(n ** 0.5)))
        w_sq = (W((side, side), seed) * (1.0 / side)).astype(np.float32)
        w_t = w_sq.T  # same buffer, different strides (tied weights)

        def fn_tied(x):
            h = jnp.tanh(x @ w_sq)
            return jnp.sum(h @ w_t), (h @ w_t)[:16]

        return _p(name, fn_tied, [(side,)])
    if variant == "fn":
        blk = BigConstBlock(n, seed)

        def fn(x):
            acc = blk(x)
            for w in ws[1:]:
                acc = acc + x * w
            return jnp.sum(acc), acc[:16]

    elif variant == "loop":

        def fn(x):
            acc = lax.fori_loop(0, 2, lambda i, v: v * ws[0] + 1.0, x)
            for w in ws[1:]:
                acc = acc + x * w
            return jnp.sum(acc), acc[:16]

    else:

        def fn(x):
            acc = x * ws[0]
            for w in ws[1:]:
                acc = acc + x * w
            return jnp.sum(acc), acc[:16]

    return _p(name, fn, [(n,)])


def build(group: str, name: str) -> Program:
    if name.startswith("big-"):
        prog = _big(name)
        prog.pid = f"fx::{group}::{name}"
        return prog
    prog = BUILDERS[name]()
    prog.pid = f"fx::{group}::{name}"
    return prog

"""Static index of fixture names per group (importable without jax)."""
_ALL = [
    "flat", "flat_f64", "net", "outer", "fn_boundary", "fn_kw", "eqx_block", "plain",
    "ublock_pair", "two_same", "two_diff", "kwblock", "resconv_nchw", "resconv",
    "chanattn_nchw", "transpose_forest", "reshape_chain", "cf_cond", "cf_fori",
    "cf_while", "cf_scan", "cf_nested", "fn_boundary_f64",
]
INDEX = {
    "all": _ALL,
    "c16": _ALL + ["f16_elementwise", "f16_cast_chain", "dead_cast", "dead_transpose", "dead_reshape", "dead_swish", "dead_rsqrt", "dead_chain", "dead_fn_call", "tmean_top", "tmean_with_fn"],
    "c16cat": [f"{k}@{pl}" for k in ("unreg", "switch3", "scan_reverse", "fori_dynamic", "dim_arith") for pl in ("top", "loop", "fn")] + ["dim_no_origin@fn", "dim_no_origin@nested_fn", "dim_no_origin_scatter@loop"] + [f"scan_fwd_rev@{pl}" for pl in ("top", "loop", "fn")] + ["fn_in_fori@top", "fn_in_scan@top", "fn_in_cond@top", "fn_in_while@top", "inst_top_then_body@top"],
    # history entries: [programs converted first ...] then the judged construct, in one interpreter
    "c16cat_seq": [["scan_fwd_shared@top", "scan_rev_shared@top"], ["scan_fwd_rev@top", "scan_reverse@top"], ["scan_fwd_shared@top", "scan_fwd_rev@fn"], ["switch2_shared@top", "switch3_shared@top"], ["fori_static_shared@top", "fori_dynamic_shared@top"]],
    "c13": ["flat", "net", "outer", "fn_boundary", "eqx_block", "plain", "jit_cold", "jit_cold2", "flat_f64", "fn_boundary_f64", "cf_nested", "kwblock", "cf_fn_in_scan", "eqx_rope", "eqx_rope_long", "ckpt_fn"],
}

"""Static index of fixture ids (importable without jax)."""
INDEX = {
    "c16": [],
    "c16cat": [],
}

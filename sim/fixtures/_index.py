"""Static index of fixture names per group (importable without jax)."""
_ALL = [
    "flat", "flat_f64", "net", "outer", "fn_boundary", "fn_kw", "eqx_block", "plain",
    "ublock_pair", "two_same", "two_diff", "kwblock", "resconv_nchw", "resconv",
    "chanattn_nchw", "transpose_forest", "reshape_chain", "cf_cond", "cf_fori",
    "cf_while", "cf_scan", "cf_nested", "fn_boundary_f64",
]
INDEX = {
    "all": _ALL,
    "c16": _ALL,
    "c16cat": [f"{k}@{pl}" for k in ("unreg", "switch3", "scan_reverse", "fori_dynamic", "dim_arith") for pl in ("top", "loop", "fn")] + ["dim_no_origin@fn", "dim_no_origin@nested_fn"],
    "c13": ["flat", "net", "outer", "fn_boundary", "eqx_block", "plain", "jit_cold", "jit_cold2", "flat_f64", "fn_boundary_f64", "cf_nested", "kwblock", "cf_fn_in_scan"],
}

"""Named unsupported / delicate constructs for C16 (each at top level, in a
loop body and in an @onnx_function body).  The oracle is *loud or correct*:
to_onnx raises, or the returned model agrees with eager JAX on every listed
input set (all branch choices / trip counts)."""
from __future__ import annotations

from typing import Any, Callable

import jax
import jax.numpy as jnp
import numpy as np
from jax import lax
from jax.extend import core as jcore

from jax2onnx import onnx_function
from sim.fixtures.lib import _p
from sim.programs import Program

# -- an unregistered primitive ------------------------------------------------
_unreg_p = jcore.Primitive("sim_unregistered_primitive")
_unreg_p.def_impl(lambda x: x * 3.0 + 1.0)
_unreg_p.def_abstract_eval(lambda x: jax.core.ShapedArray(x.shape, x.dtype))


def unreg(x):
    return _unreg_p.bind(x)


def switch3(i, x):
    return lax.switch(i, [lambda v: v + 1.0, lambda v: v * 2.0, lambda v: -v], x)


def scan_reverse(x):
    def step(c, xs):
        c2 = c * 0.5 + xs
        return c2, c2

    return lax.scan(step, jnp.zeros_like(x[0]), x, reverse=True)[1]


def _shared_step(c, xs):
    c2 = c * 0.5 + xs
    return c2, c2 + 1.0


def scan_fwd_shared(x):
    """Forward scan over the cell that scan_rev_shared / scan_fwd_rev reverse-scan."""
    return lax.scan(_shared_step, jnp.zeros_like(x[0]), x)[1]


def scan_rev_shared(x):
    return lax.scan(_shared_step, jnp.zeros_like(x[0]), x, reverse=True)[1]


def scan_fwd_rev(x):
    # the same cell function scanned forward and then in reverse inside one callable
    a = lax.scan(_shared_step, jnp.zeros_like(x[0]), x)[1]
    b = lax.scan(_shared_step, jnp.zeros_like(x[0]), x, reverse=True)[1]
    return a + 2.0 * b


def _br_a(v):
    return v + 1.0


def _br_b(v):
    return v * 2.0


def _br_c(v):
    return -v


def switch2_shared(i, x):
    return lax.switch(i, [_br_a, _br_b], x)


def switch3_shared(i, x):
    return lax.switch(i, [_br_a, _br_b, _br_c], x)


def _fori_body_shared(i, v):
    return v * 0.9 + 1.0


def fori_static_shared(x):
    return lax.fori_loop(0, 3, _fori_body_shared, x)


def fori_dynamic_shared(n, x):
    return lax.fori_loop(0, n, _fori_body_shared, x)


def fori_dynamic(n, x):
    return lax.fori_loop(0, n, lambda i, v: v * 0.9 + 1.0, x)


def dim_arith(x):
    b = x.shape[0]
    return jnp.sum(x, axis=0) * (b * 2 + 1)


def in_loop(f: Callable) -> Callable:
    def g(*a):
        *pre, x = a
        return lax.fori_loop(0, 2, lambda i, v: f(*pre, v), x)

    return g


@onnx_function
def cat_fn_unreg(x):
    return unreg(x) + 1.0


@onnx_function
def cat_fn_switch3(i, x):
    return switch3(i, x) + 1.0


@onnx_function
def cat_fn_scan_reverse(x):
    return scan_reverse(x) + 1.0


@onnx_function
def cat_fn_scan_fwd_rev(x):
    return scan_fwd_rev(x) + 1.0


@onnx_function
def cat_fn_fori_dynamic(n, x):
    return fori_dynamic(n, x) + 1.0


@onnx_function
def cat_fn_dim_arith(x):
    return dim_arith(x) + 1.0


@onnx_function
class CatTileRows:
    """The body needs a dimension its own inputs do not carry."""

    def __init__(self, n):
        self.n = n

    def __call__(self, v):
        return jnp.broadcast_to(v, (self.n, v.shape[0])) * 2.0


def dim_no_origin_fn(x):
    return CatTileRows(x.shape[0])(jnp.sum(x, 0))


@onnx_function
class CatOuterTile:
    def __init__(self, n):
        self.inner = CatTileRows(n)

    def __call__(self, v):
        return self.inner(v + 1.0)


def dim_no_origin_nested(x):
    return CatOuterTile(x.shape[0])(jnp.sum(x, 0))


_X = np.array([0.5, -1.0, 2.0], np.float32)
_XS = np.arange(12, dtype=np.float32).reshape(4, 3) * 0.1
_I = [np.int32(0), np.int32(1), np.int32(2)]


def _spec(*arrs: Any) -> list:
    return [jax.ShapeDtypeStruct(np.shape(a), np.asarray(a).dtype) for a in arrs]


def _prog(name: str, fn: Callable, specs: list, input_sets: list) -> Program:
    p = _p(name, fn, [tuple(s.shape) for s in specs], dtypes=[s.dtype for s in specs])
    p.inputs = specs
    p.meta["input_sets"] = input_sets
    return p


def _mk(name: str) -> Program:
    kind, place = name.rsplit("@", 1)
    wrap = {"top": lambda f: f, "loop": in_loop, "fn": None}[place]
    if kind == "unreg":
        f = cat_fn_unreg if place == "fn" else wrap(unreg)
        return _prog(name, lambda x: f(x), _spec(_X), [[_X]])
    if kind == "switch3":
        f = cat_fn_switch3 if place == "fn" else wrap(switch3)
        return _prog(name, lambda i, x: f(i, x), _spec(_I[0], _X), [[i, _X] for i in _I])
    if kind == "scan_reverse":
        if place == "loop":
            f2 = lambda x: lax.fori_loop(0, 2, lambda i, v: scan_reverse(v), x)  # noqa: E731
        else:
            f2 = cat_fn_scan_reverse if place == "fn" else scan_reverse
        return _prog(name, lambda x: f2(x), _spec(_XS), [[_XS]])
    if kind == "scan_fwd_rev":
        if place == "loop":
            f3 = lambda x: lax.fori_loop(0, 2, lambda i, v: scan_fwd_rev(v), x)  # noqa: E731
        else:
            f3 = cat_fn_scan_fwd_rev if place == "fn" else scan_fwd_rev
        return _prog(name, lambda x: f3(x), _spec(_XS), [[_XS]])
    if kind.startswith("fn_in_") or kind == "inst_top_then_body":
        from sim.fixtures import lib as _lib

        if kind == "fn_in_fori":
            g = lambda x: lax.fori_loop(0, 2, lambda i, v: _lib.fn_sin2(v) * 0.5, x)  # noqa: E731
        elif kind == "fn_in_scan":
            g = lambda x: lax.scan(lambda c, e: (_lib.fn_sin2(c) * 0.5 + e, c), jnp.zeros_like(x), jnp.stack([x, x * 2.0]))[0]  # noqa: E731
        elif kind == "fn_in_cond":
            g = lambda x: lax.cond(jnp.sum(x) > 0, lambda v: _lib.fn_sin2(v), lambda v: v * 3.0, x)  # noqa: E731
        elif kind == "fn_in_while":
            g = lambda x: lax.while_loop(lambda s: s[0] < 2, lambda s: (s[0] + 1, _lib.fn_sin2(s[1]) * 0.5), (0, x))[1]  # noqa: E731
        else:
            a_ = _lib._single("cat_blk_a", lambda: _lib.Block(3, 3, 1))
            b_ = _lib._single("cat_blk_b", lambda: _lib.Block(3, 3, 2))
            # one instance at top level, ANOTHER instance of the same class first used inside a loop body
            g = lambda x: lax.fori_loop(0, 2, lambda i, v: b_(v[None, :])[0], a_(x[None, :])[0])  # noqa: E731
        return _prog(name, lambda x: g(x), _spec(_X), [[_X], [-_X]])
    if kind == "switch2_shared":
        return _prog(name, lambda i, x: switch2_shared(i, x), _spec(_I[0], _X), [[i, _X] for i in _I[:2]])
    if kind == "switch3_shared":
        return _prog(name, lambda i, x: switch3_shared(i, x), _spec(_I[0], _X), [[i, _X] for i in _I])
    if kind == "fori_static_shared":
        return _prog(name, lambda x: fori_static_shared(x), _spec(_X), [[_X]])
    if kind == "fori_dynamic_shared":
        return _prog(name, lambda n, x: fori_dynamic_shared(n, x), _spec(np.int32(3), _X), [[np.int32(k), _X] for k in (0, 1, 3, 5)])
    if kind == "scan_fwd_shared":
        return _prog(name, lambda x: scan_fwd_shared(x), _spec(_XS), [[_XS]])
    if kind == "scan_rev_shared":
        return _prog(name, lambda x: scan_rev_shared(x), _spec(_XS), [[_XS]])
    if kind == "fori_dynamic":
        f = cat_fn_fori_dynamic if place == "fn" else wrap(fori_dynamic)
        return _prog(name, lambda n, x: f(n, x), _spec(np.int32(3), _X), [[np.int32(k), _X] for k in (0, 1, 3, 5)])
    if kind == "dim_arith":
        f = cat_fn_dim_arith if place == "fn" else (dim_arith if place == "top" else (lambda x: lax.fori_loop(0, 2, lambda i, v: v + dim_arith(v)[None, :] * 0.0 + 1.0, x)))
        specs = [jax.ShapeDtypeStruct(("B", 3), np.float32)]
        p = _p(name, lambda x: f(x), [("B", 3)])
        p.meta["input_sets"] = [[_XS], [_XS[:1]], [np.concatenate([_XS, _XS])]]
        return p
    raise KeyError(name)


def dim_no_origin_scatter_loop(c):
    # a loop body that needs half of a "2*b" dimension (no origin for b) and also scatters
    def body(i, v):
        z = jnp.zeros((c.shape[0] // 2, 3), v.dtype)
        return v.at[0].add(1.0) + jnp.sum(z)

    return lax.fori_loop(0, 2, body, c)


def _mk_extra(name: str) -> Program:
    if name == "dim_no_origin_scatter@loop":
        p = _p(name, lambda x: dim_no_origin_scatter_loop(x), [("2*b", 3)])
        p.meta["input_sets"] = [[_XS], [_XS[:2]]]
        return p
    f = {"dim_no_origin@fn": dim_no_origin_fn, "dim_no_origin@nested_fn": dim_no_origin_nested}[name]
    p = _p(name, lambda x: f(x), [("B", 3)])
    p.meta["input_sets"] = [[_XS], [_XS[:1]], [np.concatenate([_XS, _XS])]]
    return p


NAMES = [f"{k}@{pl}" for k in ("unreg", "switch3", "scan_reverse", "fori_dynamic", "dim_arith") for pl in ("top", "loop", "fn")]


def build(group: str, name: str) -> Program:
    p = _mk_extra(name) if name.startswith("dim_no_origin") else _mk(name)
    p.pid = f"fx::{group}::{name}"
    return p

"""Unusual-but-legal variants of supported primitives for C16 (loud or
correct): each entry is (name, fn, input sets).  Small tensors with exactly
representable values, so that 'correct' is unambiguous.  Only STATIC variants
(parameters of the primitive, structure of the program) belong here; behaviour
that depends on run-time values (out-of-range indices, NaN, overflow) is an
input quantifier and belongs to C01, so such entries were removed."""
from __future__ import annotations

from typing import Any, Callable

import jax
import jax.numpy as jnp
import numpy as np
from jax import lax

from sim.fixtures.lib import _p
from sim.programs import Program

f32 = np.float32
i32 = np.int32
A = np.array([[1.0, -2.0, 3.5, 0.0], [4.0, 0.5, -1.5, 2.0], [-3.0, 7.0, 1.0, -0.5]], f32)
V = np.array([3.0, -1.0, 2.0, 5.0, -4.0], f32)
IV = np.array([7, -7, 5, -5, 0, 3], i32)
IDX = np.array([0, 2, 5, -1, 7], i32)


def _scan(reverse: bool, xs: bool, unroll: int = 1) -> Callable:
    def f(x):
        def step(c, e):
            c2 = c * 2.0 + (e if xs else 1.0)
            return c2, c2

        return lax.scan(step, jnp.zeros(()), x if xs else None, length=None if xs else 5, reverse=reverse, unroll=unroll)

    return f


ENTRIES: dict[str, tuple[Callable, list]] = {
    "scan_fwd_noxs": (lambda x: _scan(False, False)(x)[1] + x * 0, [[V]]),
    "scan_rev_noxs": (lambda x: _scan(True, False)(x)[1] + x * 0, [[V]]),
    "scan_rev_xs": (lambda x: _scan(True, True)(x)[1], [[V]]),
    "scan_fwd_unroll2": (lambda x: _scan(False, True, 2)(x)[1], [[V]]),
    "scan_rev_carry_only": (lambda x: _scan(True, False)(x)[0] + x[0] * 0, [[V]]),
    "cumsum_reverse": (lambda x: lax.cumsum(x, axis=0, reverse=True), [[V]]),
    "cumprod_reverse": (lambda x: lax.cumprod(x, axis=0, reverse=True), [[V]]),
    "cummax_reverse": (lambda x: lax.cummax(x, axis=0, reverse=True), [[V]]),
    "take_clip": (lambda x, i: jnp.take(x, i, mode="clip"), [[V, IDX]]),
    "take_wrap": (lambda x, i: jnp.take(x, i, mode="wrap"), [[V, IDX]]),
    "take_fill": (lambda x, i: jnp.take(x, i, mode="fill", fill_value=-9.0), [[V, IDX]]),
    "int_div_neg": (lambda a: lax.div(a, jnp.array(2, i32)), [[IV]]),
    "int_rem_neg": (lambda a: lax.rem(a, jnp.array(3, i32)), [[IV]]),
    "floor_divide_neg": (lambda a: a // 2, [[IV]]),
    "mod_neg": (lambda a: a % 3, [[IV]]),
    "round_half_even": (lambda x: jnp.round(x), [[np.array([0.5, 1.5, 2.5, -0.5, -1.5, 2.4999], f32)]]),
    "sign_zero": (lambda x: jnp.sign(x), [[np.array([-2.0, -0.0, 0.0, 3.0], f32)]]),
    "argmax_ties": (lambda x: jnp.argmax(x), [[np.array([1.0, 5.0, 5.0, 2.0], f32)]]),
    "argmin_ties_axis": (lambda x: jnp.argmin(x, axis=1), [[np.array([[1.0, 1.0, 2.0], [3.0, 0.0, 0.0]], f32)]]),
    "pad_reflect": (lambda x: jnp.pad(x, ((1, 2), (2, 1)), mode="reflect"), [[A]]),
    "pad_symmetric": (lambda x: jnp.pad(x, ((1, 2), (2, 1)), mode="symmetric"), [[A]]),
    "pad_edge": (lambda x: jnp.pad(x, ((1, 2), (2, 1)), mode="edge"), [[A]]),
    "pad_wrap": (lambda x: jnp.pad(x, ((1, 2), (2, 1)), mode="wrap"), [[A]]),
    "pad_negative": (lambda x: lax.pad(x, jnp.array(0.0, f32), ((1, -1, 0), (-1, 2, 1))), [[A]]),
    "clamp_crossed": (lambda x: lax.clamp(jnp.array(1.0, f32), x, jnp.array(-1.0, f32)), [[V]]),
    "clip_min_gt_max": (lambda x: jnp.clip(x, 2.0, -2.0), [[V]]),
    "sort_desc_stable": (lambda x: -jnp.sort(-x), [[np.array([2.0, 1.0, 2.0, 3.0, 1.0], f32)]]),
    "argsort_stable": (lambda x: jnp.argsort(x, stable=True), [[np.array([2.0, 1.0, 2.0, 3.0, 1.0], f32)]]),
    "top_k": (lambda x: lax.top_k(x, 2)[1], [[np.array([2.0, 9.0, 9.0, 3.0, 1.0], f32)]]),
    "reduce_window_max_pad": (lambda x: lax.reduce_window(x, -jnp.inf, lax.max, (2, 2), (1, 2), "SAME"), [[A]]),
    "reduce_window_sum_dil": (lambda x: lax.reduce_window(x, 0.0, lax.add, (2, 2), (1, 1), "VALID", window_dilation=(1, 2)), [[A]]),
    "conv_groups_dil": (
        lambda x: lax.conv_general_dilated(x, jnp.arange(16, dtype=f32).reshape(2, 2, 2, 2) * 0.1, (1, 1), "VALID", rhs_dilation=(2, 1), feature_group_count=2, dimension_numbers=("NHWC", "HWIO", "NHWC")),
        [[np.arange(2 * 5 * 4 * 4, dtype=f32).reshape(2, 5, 4, 4) * 0.01]],
    ),
    "conv_lhs_dilation": (
        lambda x: lax.conv_general_dilated(x, jnp.ones((2, 2, 1, 1), f32), (1, 1), "VALID", lhs_dilation=(2, 2), dimension_numbers=("NHWC", "HWIO", "NHWC")),
        [[np.arange(9, dtype=f32).reshape(1, 3, 3, 1)]],
    ),
    "dot_int_accum": (lambda a: lax.dot(a, a, preferred_element_type=jnp.float32), [[IV]]),
    "einsum_repeat": (lambda x: jnp.einsum("ii->i", x), [[A[:, :3]]]),
    "cast_float_to_int_trunc": (lambda x: x.astype(jnp.int32), [[np.array([1.9, -1.9, 2.5, -0.5], f32)]]),
    "shift_right_neg": (lambda a: lax.shift_right_arithmetic(a, jnp.array(1, i32)), [[IV]]),
    "shift_right_logical_neg": (lambda a: lax.shift_right_logical(a, jnp.array(1, i32)), [[IV]]),
    "pow_neg_base_int_exp": (lambda x: lax.integer_pow(x, 3), [[V]]),
    "expm1_log1p_small": (lambda x: jnp.expm1(x) + jnp.log1p(x), [[np.array([1e-6, -1e-6, 0.5], f32)]]),
    "scatter_add_dup": (lambda x, i: x.at[i].add(1.0), [[V, np.array([1, 1, 3], i32)]]),
    "scatter_max_dup": (lambda x, i: x.at[i].max(jnp.array([10.0, 20.0, -5.0], f32)), [[V, np.array([1, 1, 3], i32)]]),
    "flip_multi": (lambda x: jnp.flip(x, axis=(0, 1)), [[A]]),
    "roll_neg": (lambda x: jnp.roll(x, (-1, 2), axis=(0, 1)), [[A]]),
    "tile_then_slice_step": (lambda x: jnp.tile(x, (2, 1))[::2, ::-1], [[A]]),
    "slice_neg_step": (lambda x: x[::-2], [[V]]),
    "squeeze_expand": (lambda x: jnp.expand_dims(x, (0, 2)).squeeze(0), [[A]]),
    "cond_pytree": (lambda p, x: lax.cond(p > 0, lambda t: (t[0] + 1.0, t[1] * 2.0), lambda t: (t[1], t[0]), (x, x * 3.0))[0], [[f32(1.0), V], [f32(-1.0), V]]),
    "while_pytree": (lambda x: lax.while_loop(lambda s: s[0] < 3, lambda s: (s[0] + 1, {"a": s[1]["a"] * 2.0, "b": s[1]["b"] + s[1]["a"]}), (0, {"a": x, "b": x * 0}))[1]["b"], [[V]]),
    "fori_zero_trip": (lambda x: lax.fori_loop(3, 3, lambda i, v: v + 1.0, x), [[V]]),
    "fori_negative_range": (lambda x: lax.fori_loop(5, 2, lambda i, v: v + 1.0, x), [[V]]),
    "switch2": (lambda i, x: lax.switch(i, [lambda v: v + 1.0, lambda v: v * 2.0], x), [[i32(0), V], [i32(1), V], [i32(5), V], [i32(-3), V]]),
    "select_n3": (lambda i, x: lax.select_n(i, x, x * 2.0, x * 3.0), [[np.array([0, 1, 2, 1, 0], i32), V]]),
    # non-identity init values are folded into EVERY window by JAX (max with 0.0 = relu(maxpool))
    "reduce_window_max_init0_valid": (lambda x: lax.reduce_window(x, 0.0, lax.max, (2, 2), (1, 1), "VALID"), [[-np.abs(A)], [A]]),
    "reduce_window_min_init0_valid": (lambda x: lax.reduce_window(x, 0.0, lax.min, (2, 2), (1, 1), "VALID"), [[np.abs(A) + 1.0], [A]]),
    "reduce_window_add_init1_valid": (lambda x: lax.reduce_window(x, 1.0, lax.add, (2, 2), (1, 1), "VALID"), [[A]]),
    "reduce_window_max_init0_same": (lambda x: lax.reduce_window(x, 0.0, lax.max, (2, 2), (1, 1), "SAME"), [[-np.abs(A)]]),
    "reduce_window_base_dilation": (lambda x: lax.reduce_window(x, -jnp.inf, lax.max, (2, 2), (1, 1), "VALID", base_dilation=(2, 1)), [[A]]),
    "reduce_window_mul": (lambda x: lax.reduce_window(x, 1.0, lax.mul, (2, 1), (1, 1), "VALID"), [[A]]),
    "reduce_custom_monoid": (lambda x: lax.reduce(x, jnp.array(0.0, f32), lambda a, b: a + b * 2.0, (1,)), [[A]]),
    "reduce_max_init0": (lambda x: lax.reduce(x, jnp.array(0.0, f32), lax.max, (1,)), [[-np.abs(A)]]),
    "cumsum_reverse_axis1": (lambda x: lax.cumsum(x, axis=1, reverse=True), [[A]]),
    "cumlogsumexp_reverse": (lambda x: lax.cumlogsumexp(x, axis=0, reverse=True), [[V]]),
    "sort_two_operands": (lambda a, b: lax.sort((a, b), dimension=0, num_keys=1)[1], [[np.array([2.0, 1.0, 2.0, 3.0, 1.0], f32), V]]),
    "sort_descending_axis": (lambda x: jnp.sort(x, axis=0, descending=True), [[A]]),
    "conv_batch_groups": (
        lambda x: lax.conv_general_dilated(x, jnp.arange(2 * 2 * 2 * 4, dtype=f32).reshape(2, 2, 2, 4) * 0.1, (1, 1), "VALID", batch_group_count=2, dimension_numbers=("NHWC", "HWIO", "NHWC")),
        [[np.arange(2 * 3 * 3 * 2, dtype=f32).reshape(2, 3, 3, 2) * 0.1]],
    ),
    "integer_pow_negative": (lambda x: lax.integer_pow(x, -2), [[V]]),
    "rem_float_neg": (lambda x: lax.rem(x, jnp.array(2.0, f32)), [[V]]),
    "iota_dim1": (lambda x: x + lax.broadcasted_iota(f32, (3, 4), 1), [[A]]),
    "argmax_int_index_dtype": (lambda x: lax.argmax(x, 1, jnp.int32), [[A]]),
    "reduce_and_ints": (lambda a: lax.reduce(a, jnp.array(-1, i32), lax.bitwise_and, (0,)), [[IV]]),
    "clamp_tensor_bounds": (lambda x: lax.clamp(x * 0.0 - 1.0, x, x * 0.0 + 2.0), [[V]]),
    "expand_dims_neg": (lambda x: jnp.expand_dims(x, (-1, 0)), [[V]]),
}

NAMES = sorted(ENTRIES)


def build(group: str, name: str) -> Program:
    fn, sets = ENTRIES[name]
    first = sets[0]
    specs = [jax.ShapeDtypeStruct(np.shape(a), np.asarray(a).dtype) for a in first]
    p = _p(name, fn, [tuple(s.shape) for s in specs], dtypes=[s.dtype for s in specs])
    p.inputs = specs
    p.meta["input_sets"] = sets
    p.pid = f"fx::{group}::{name}"
    return p

"""Hand-written fixture programs (public API only).  ids are 'fx::<group>::<name>'."""
from __future__ import annotations

import importlib
from typing import Any


def ids(group: str) -> list[str]:
    if group == "c16var":
        import ast, os

        src = open(os.path.join(os.path.dirname(__file__), "variants.py")).read()
        names = []
        for node in ast.walk(ast.parse(src)):
            if isinstance(node, ast.AnnAssign) and getattr(node.target, "id", "") == "ENTRIES" and isinstance(node.value, ast.Dict):
                names = [k.value for k in node.value.keys if isinstance(k, ast.Constant)]
        return [f"fx::{group}::{n}" for n in sorted(names)]
    mod = importlib.import_module("sim.fixtures._index")
    return [f"fx::{group}::{n}" for n in mod.INDEX.get(group, [])]


def build(pid: str) -> Any:
    _, group, name = pid.split("::", 2)
    if group == "c16var":
        mod = importlib.import_module("sim.fixtures.variants")
        return mod.build(group, name)
    if group == "c16cat":
        mod = importlib.import_module("sim.fixtures.catalogue")
        return mod.build(group, name)
    mod = importlib.import_module("sim.fixtures.lib")
    return mod.build(group, name)

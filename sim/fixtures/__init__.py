"""Hand-written fixture programs (public API only).  ids are 'fx::<group>::<name>'."""
from __future__ import annotations

import importlib
from typing import Any


def ids(group: str) -> list[str]:
    mod = importlib.import_module("sim.fixtures._index")
    return [f"fx::{group}::{n}" for n in mod.INDEX.get(group, [])]


def build(pid: str) -> Any:
    _, group, name = pid.split("::", 2)
    if group == "c16cat":
        mod = importlib.import_module("sim.fixtures.catalogue")
        return mod.build(group, name)
    mod = importlib.import_module("sim.fixtures.lib")
    return mod.build(group, name)

"""Hand-written fixture programs (public API only).  ids are 'fx::<group>::<name>'."""
from __future__ import annotations

import importlib
from typing import Any

_GROUPS = {
    "c16": "sim.fixtures.fx_c16",
    "c16cat": "sim.fixtures.fx_c16",
}


def ids(group: str) -> list[str]:
    mod = importlib.import_module("sim.fixtures._index")
    return list(mod.INDEX.get(group, []))


def build(pid: str) -> Any:
    _, group, name = pid.split("::", 2)
    mod = importlib.import_module(_GROUPS[group])
    return mod.build(group, name)
